(* CacheProofs.v — lemmas behind properties/C20.v *)
From Coq Require Import Lia.
From MLV Require Import gen.Params model.Bytes model.Cache model.Check20.
Open Scope N_scope.

Definition ctr (sel : qclass -> bool) (f : centry -> Z) (e : centry) : Z := if sel (e_class e) then f e else 0%Z.

Lemma agg_cons sel f e l : agg (e :: l) sel f = (ctr sel f e + agg l sel f)%Z.
Proof. unfold agg, ctr. cbn [fold_right]. destruct (sel (e_class e)); lia. Qed.

Lemma agg_removelast sel f l d : l <> [] -> agg l sel f = (agg (removelast l) sel f + ctr sel f (last l d))%Z.
Proof.
  induction l as [|x l IH]; intros H; [contradiction|]. destruct l as [|y l'].
  - cbn [removelast last]. rewrite agg_cons. unfold agg. cbn. lia.
  - change (removelast (x :: y :: l')) with (x :: removelast (y :: l')). change (last (x :: y :: l') d) with (last (y :: l') d).
    rewrite (agg_cons sel f x (y :: l')), (agg_cons sel f x (removelast (y :: l'))), IH by discriminate. lia.
Qed.

Definition targets (l : list centry) : list N := map e_target l.

Lemma find_none_filter t l : find (fun x => e_target x =? t) l = None -> filter (fun x => negb (e_target x =? t)) l = l.
Proof.
  induction l as [|x l IH]; [reflexivity|]. cbn [find filter]. destruct (e_target x =? t); [discriminate|]. cbn [negb].
  intros H. now rewrite IH.
Qed.

Lemma agg_filter_find sel f t l : NoDup (targets l) ->
  agg l sel f = Z.add (agg (filter (fun x => negb (e_target x =? t)) l) sel f)
                      (match find (fun x => e_target x =? t) l with Some x => ctr sel f x | None => 0%Z end).
Proof.
  induction l as [|x l IH]; intros ND; [reflexivity|]. cbn [targets map] in ND. inversion ND as [|? ? Hx ND']; subst.
  cbn [find filter]. destruct (N.eqb_spec (e_target x) t) as [E|E]; cbn [negb].
  - (* x is the entry; it does not occur again *)
    rewrite agg_cons. rewrite (find_none_filter t l); [lia|].
    clear - Hx E. induction l as [|y l IH]; [reflexivity|]. cbn [find]. destruct (N.eqb_spec (e_target y) t) as [E'|E'].
    + exfalso. apply Hx. left. congruence.
    + apply IH. intros H. apply Hx. now right.
  - rewrite !agg_cons, (IH ND'). lia.
Qed.

Lemma in_filter_targets t l x : In x (targets (filter (fun y => negb (e_target y =? t)) l)) -> In x (targets l) /\ x <> t.
Proof.
  unfold targets. rewrite in_map_iff. intros (y & <- & Hy). apply filter_In in Hy as [Hy Hn].
  split; [now apply in_map|]. apply negb_true_iff, N.eqb_neq in Hn. exact Hn.
Qed.

Lemma nodup_filter t l : NoDup (targets l) -> NoDup (targets (filter (fun y => negb (e_target y =? t)) l)).
Proof.
  induction l as [|x l IH]; intros ND; [constructor|]. cbn [targets map] in ND. inversion ND as [|? ? Hx ND']; subst.
  cbn [filter]. destruct (negb (e_target x =? t)); [|now apply IH].
  cbn [targets map]. constructor; [|now apply IH]. intros H. apply in_filter_targets in H as [H _]. contradiction.
Qed.

Lemma in_removelast' {A} (l : list A) x : In x (removelast l) -> In x l.
Proof.
  induction l as [|y l IH]; [intros []|]. destruct l as [|z l']; [intros []|].
  change (removelast (y :: z :: l')) with (y :: removelast (z :: l')). intros [->|H]; [now left|right; now apply IH].
Qed.

Lemma map_removelast {A B} (f : A -> B) l : map f (removelast l) = removelast (map f l).
Proof.
  induction l as [|y l IH]; [reflexivity|]. destruct l as [|z l']; [reflexivity|].
  change (removelast (y :: z :: l')) with (y :: removelast (z :: l')). cbn [map]. rewrite IH. reflexivity.
Qed.

Lemma nodup_removelast_gen {A} (l : list A) : NoDup l -> NoDup (removelast l).
Proof.
  induction l as [|x l IH]; intros ND; [constructor|]. destruct l as [|y l']; [constructor|].
  change (removelast (x :: y :: l')) with (x :: removelast (y :: l')). inversion ND as [|? ? Hx ND']; subst.
  constructor; [|now apply IH]. intros H. apply Hx. now apply in_removelast'.
Qed.

Lemma nodup_removelast l : NoDup (targets l) -> NoDup (targets (removelast l)).
Proof. unfold targets. rewrite map_removelast. apply nodup_removelast_gen. Qed.

(* ---------- the ten counters as one vector ---------- *)
Record v10 := V10 { v1 : Z; v2 : Z; v3 : Z; v4 : Z; v5 : Z; v6 : Z; v7 : Z; v8 : Z; v9 : Z; v0' : Z }.
Definition vz : v10 := V10 0 0 0 0 0 0 0 0 0 0.
Definition vadd (a b : v10) : v10 :=
  V10 (v1 a + v1 b) (v2 a + v2 b) (v3 a + v3 b) (v4 a + v4 b) (v5 a + v5 b) (v6 a + v6 b) (v7 a + v7 b) (v8 a + v8 b) (v9 a + v9 b) (v0' a + v0' b)%Z.
Definition vsub (a b : v10) : v10 :=
  V10 (v1 a - v1 b) (v2 a - v2 b) (v3 a - v3 b) (v4 a - v4 b) (v5 a - v5 b) (v6 a - v6 b) (v7 a - v7 b) (v8 a - v8 b) (v9 a - v9 b) (v0' a - v0' b)%Z.

Ltac vsolve := repeat match goal with x : v10 |- _ => destruct x end; unfold vadd, vsub, vz; cbn [v1 v2 v3 v4 v5 v6 v7 v8 v9 v0']; f_equal; lia.

Lemma vadd_comm a b : vadd a b = vadd b a. Proof. vsolve. Qed.
Lemma vadd_assoc a b c : vadd a (vadd b c) = vadd (vadd a b) c. Proof. vsolve. Qed.
Lemma vadd_z_r a : vadd a vz = a. Proof. vsolve. Qed.
Lemma vsub_add a b : vsub (vadd a b) b = a. Proof. vsolve. Qed.
Lemma vadd_sub_swap a b c : vadd (vsub a b) c = vsub (vadd a c) b. Proof. vsolve. Qed.

Definition gvec (e : centry) : v10 :=
  V10 (ctr is_main one e) (ctr is_main e_est e) (ctr is_main_resp one e) (ctr is_main_resp e_resp e) (ctr is_main_resp e_subnets e)
      (ctr is_signed one e) (ctr is_signed e_est e) (ctr is_signed one e) (ctr is_signed e_resp e) (ctr is_signed e_subnets e).
Definition fields (s : cstate) : v10 :=
  V10 (dht_count (c_main s)) (dht_sum (c_main s)) (resp_count (c_main s)) (resp_sum (c_main s)) (subnets_sum (c_main s))
      (dht_count (c_signed s)) (dht_sum (c_signed s)) (resp_count (c_signed s)) (resp_sum (c_signed s)) (subnets_sum (c_signed s)).
Definition vsum (l : list centry) : v10 := fold_right (fun e acc => vadd (gvec e) acc) vz l.

Lemma fields_increment s e : fields (increment s e) = vadd (gvec e) (fields s).
Proof.
  unfold increment, fields, gvec, vadd, ctr, one. destruct (e_class e);
    cbn [c_main c_signed c_entries inc_dht inc_resp dht_count dht_sum resp_count resp_sum subnets_sum is_main is_main_resp is_signed v1 v2 v3 v4 v5 v6 v7 v8 v9 v0'];
    f_equal; lia.
Qed.
Lemma fields_decrement s e : fields (decrement s (Some e)) = vsub (fields s) (gvec e).
Proof.
  unfold decrement, fields, gvec, vsub, ctr, one. destruct (e_class e);
    cbn [c_main c_signed c_entries dec_dht dec_resp dht_count dht_sum resp_count resp_sum subnets_sum is_main is_main_resp is_signed v1 v2 v3 v4 v5 v6 v7 v8 v9 v0'];
    f_equal; lia.
Qed.
Lemma fields_set_entries s l : fields (set_entries s l) = fields s.
Proof. reflexivity. Qed.
Lemma entries_increment s e : c_entries (increment s e) = c_entries s.
Proof. unfold increment. destruct (e_class e); reflexivity. Qed.
Lemma entries_decrement s o : c_entries (decrement s o) = c_entries s.
Proof. unfold decrement. destruct o as [e|]; [destruct (e_class e)|]; reflexivity. Qed.

Lemma vsum_removelast l d : l <> [] -> vsum l = vadd (vsum (removelast l)) (gvec (last l d)).
Proof.
  induction l as [|x l IH]; intros H; [contradiction|]. destruct l as [|y l'].
  - cbn [removelast last vsum fold_right]. rewrite vadd_z_r. rewrite vadd_comm, vadd_z_r. reflexivity.
  - change (removelast (x :: y :: l')) with (x :: removelast (y :: l')). change (last (x :: y :: l') d) with (last (y :: l') d).
    change (vsum (x :: y :: l')) with (vadd (gvec x) (vsum (y :: l'))).
    change (vsum (x :: removelast (y :: l'))) with (vadd (gvec x) (vsum (removelast (y :: l')))).
    rewrite IH by discriminate. apply vadd_assoc.
Qed.

Lemma vsum_filter_find t l : NoDup (targets l) ->
  vsum l = vadd (vsum (filter (fun x => negb (e_target x =? t)) l))
                (match find (fun x => e_target x =? t) l with Some x => gvec x | None => vz end).
Proof.
  induction l as [|x l IH]; intros ND; [reflexivity|]. cbn [targets map] in ND. inversion ND as [|? ? Hx ND']; subst.
  cbn [find filter]. destruct (N.eqb_spec (e_target x) t) as [E|E]; cbn [negb].
  - rewrite (find_none_filter t l).
    + change (vsum (x :: l)) with (vadd (gvec x) (vsum l)). apply vadd_comm.
    + clear - Hx E. induction l as [|y l IH]; [reflexivity|]. cbn [find]. destruct (N.eqb_spec (e_target y) t) as [E'|E'].
      * exfalso. apply Hx. left. congruence.
      * apply IH. intros H. apply Hx. now right.
  - change (vsum (x :: l)) with (vadd (gvec x) (vsum l)).
    change (vsum (x :: filter (fun x0 => negb (e_target x0 =? t)) l)) with (vadd (gvec x) (vsum (filter (fun x0 => negb (e_target x0 =? t)) l))).
    rewrite (IH ND'). apply vadd_assoc.
Qed.

Definition vmirror (s : cstate) : Prop := fields s = vsum (c_entries s).

Record CInv (s : cstate) : Prop := { ci_mirror : vmirror s; ci_nodup : NoDup (targets (c_entries s)); ci_cap : (length (c_entries s) <= CAP)%nat }.

Lemma cinv0 : CInv cstate0.
Proof. constructor; [reflexivity|constructor|cbn; lia]. Qed.

Lemma cap_pos : (0 < CAP)%nat.
Proof. unfold CAP. change (N.to_nat P_MAX_CACHED_ITERATIVE_QUERIES) with 1000%nat. lia. Qed.

Lemma length_removelast' {A} (l : list A) : l <> [] -> S (length (removelast l)) = length l.
Proof.
  induction l as [|x l IH]; [contradiction|]. intros _. destruct l as [|y l']; [reflexivity|].
  change (removelast (x :: y :: l')) with (x :: removelast (y :: l')). cbn [length]. rewrite IH by discriminate. reflexivity.
Qed.

Lemma filter_length_le' {A} (p : A -> bool) l : (length (filter p l) <= length l)%nat.
Proof. induction l as [|x l IH]; cbn; [lia|]. destruct (p x); cbn; lia. Qed.

(* step 1: pop the least recently used entry at capacity *)
Definition pop_step (s : cstate) (e : centry) : cstate :=
  if (CAP <=? length (c_entries s))%nat then decrement (set_entries s (removelast (c_entries s))) (Some (last (c_entries s) e)) else s.

Lemma pop_step_inv s e : CInv s -> CInv (pop_step s e) /\ (length (c_entries (pop_step s e)) < CAP)%nat.
Proof.
  intros [M ND Cap]. unfold pop_step. pose proof cap_pos as CP. destruct (Nat.leb_spec CAP (length (c_entries s))) as [Hc|Hc].
  - assert (Hne: c_entries s <> []) by (destruct (c_entries s); [cbn in Hc; lia|discriminate]).
    pose proof (length_removelast' (c_entries s) Hne) as LR. split; [constructor|].
    + unfold vmirror. rewrite fields_decrement, fields_set_entries, entries_decrement. cbn [set_entries c_entries].
      rewrite M, (vsum_removelast (c_entries s) e Hne). apply vsub_add.
    + rewrite entries_decrement. cbn [set_entries c_entries]. now apply nodup_removelast.
    + rewrite entries_decrement. cbn [set_entries c_entries]. lia.
    + rewrite entries_decrement. cbn [set_entries c_entries]. lia.
  - split; [constructor; assumption|lia].
Qed.

Theorem cache_put_inv s offline e : CInv s -> CInv (cache_put s offline e).
Proof.
  intros I. unfold cache_put. fold (pop_step s e). destruct (pop_step_inv s e I) as [[M1 ND1 Cap1] Room].
  set (s1 := pop_step s e) in *. destruct offline; [constructor; assumption|].
  set (t := e_target e).
  set (prev := find (fun x => e_target x =? t) (c_entries s1)).
  set (rest := filter (fun x => negb (e_target x =? t)) (c_entries s1)).
  assert (NDr: NoDup (targets rest)) by (now apply nodup_filter).
  assert (Hnot: ~ In t (targets rest)) by (intros H; apply in_filter_targets in H as [_ H]; now apply H).
  assert (Lr: (length rest <= length (c_entries s1))%nat) by apply filter_length_le'.
  constructor.
  - unfold vmirror. rewrite fields_increment, entries_increment, entries_decrement. cbn [set_entries c_entries].
    change (vsum (e :: rest)) with (vadd (gvec e) (vsum rest)). f_equal.
    pose proof (vsum_filter_find t (c_entries s1) ND1) as F. fold rest prev in F.
    destruct prev as [pv|].
    + rewrite fields_decrement, fields_set_entries, M1, F. apply vsub_add.
    + cbn [decrement]. rewrite fields_set_entries, M1, F. apply vadd_z_r.
  - rewrite entries_increment, entries_decrement. cbn [set_entries c_entries targets map]. constructor; assumption.
  - rewrite entries_increment, entries_decrement. cbn [set_entries c_entries length]. lia.
Qed.

Theorem cache_touch_inv s t : CInv s -> CInv (cache_touch s t).
Proof.
  intros [M ND Cap]. unfold cache_touch. destruct (find (fun x => e_target x =? t) (c_entries s)) as [x|] eqn:F; [|constructor; assumption].
  pose proof (vsum_filter_find t (c_entries s) ND) as Fv. rewrite F in Fv.
  assert (Ex: e_target x = t) by (apply find_some in F as [_ H]; now apply N.eqb_eq in H).
  constructor.
  - unfold vmirror. rewrite fields_set_entries. cbn [set_entries c_entries].
    change (vsum (x :: filter (fun y => negb (e_target y =? t)) (c_entries s))) with (vadd (gvec x) (vsum (filter (fun y => negb (e_target y =? t)) (c_entries s)))).
    rewrite M, Fv. apply vadd_comm.
  - cbn [set_entries c_entries targets map]. constructor; [|now apply nodup_filter].
    rewrite Ex. intros H. apply in_filter_targets in H as [_ H]. now apply H.
  - cbn [set_entries c_entries length].
    assert (L: Nat.lt (length (filter (fun y => negb (e_target y =? t)) (c_entries s))) (length (c_entries s))).
    { clear - F. induction (c_entries s) as [|y l IH]; [discriminate|]. cbn [find filter length] in *.
      destruct (e_target y =? t); cbn [negb]; [pose proof (filter_length_le' (fun y0 => negb (e_target y0 =? t)) l); lia|].
      cbn [length]. specialize (IH F). lia. }
    lia.
Qed.

(* every reachable cache state *)

Theorem cache_inv_reachable ops : CInv (fold_left cstep ops cstate0).
Proof.
  assert (G: forall s, CInv s -> CInv (fold_left cstep ops s)).
  { induction ops as [|o ops IH]; intros s I; [exact I|]. cbn [fold_left]. apply IH.
    destruct o; [now apply cache_put_inv|now apply cache_touch_inv]. }
  apply G, cinv0.
Qed.

(* the vector statement, component by component *)
Lemma vsum_components l :
  vsum l = V10 (agg l is_main one) (agg l is_main e_est) (agg l is_main_resp one) (agg l is_main_resp e_resp) (agg l is_main_resp e_subnets)
               (agg l is_signed one) (agg l is_signed e_est) (agg l is_signed one) (agg l is_signed e_resp) (agg l is_signed e_subnets).
Proof.
  induction l as [|e l IH]; [reflexivity|]. change (vsum (e :: l)) with (vadd (gvec e) (vsum l)). rewrite IH, !agg_cons.
  unfold vadd, gvec. cbn [v1 v2 v3 v4 v5 v6 v7 v8 v9 v0']. reflexivity.
Qed.

Theorem stats_mirror_cache ops : mirror (fold_left cstep ops cstate0).
Proof.
  pose proof (ci_mirror _ (cache_inv_reachable ops)) as M. unfold vmirror in M. rewrite vsum_components in M.
  unfold fields in M. injection M as M1 M2 M3 M4 M5 M6 M7 M8 M9 M10. unfold mirror. repeat split; assumption.
Qed.

(* counts never underflow: they are sums of ones *)
Lemma agg_one_nonneg l sel : (0 <= agg l sel one)%Z.
Proof. induction l as [|e l IH]; [cbn; lia|]. rewrite agg_cons. unfold ctr. destruct (sel (e_class e)); [change (one e) with 1%Z|]; lia. Qed.

Theorem counts_never_underflow ops :
  let s := fold_left cstep ops cstate0 in
  (0 <= dht_count (c_main s) /\ 0 <= resp_count (c_main s) /\ 0 <= dht_count (c_signed s) /\ 0 <= resp_count (c_signed s))%Z.
Proof.
  intros s. destruct (stats_mirror_cache ops) as (M1 & _ & M3 & _ & _ & M6 & _ & M8 & _). fold s in M1, M3, M6, M8.
  rewrite M1, M3, M6, M8. repeat split; apply agg_one_nonneg.
Qed.

Theorem cache_capped ops : (length (c_entries (fold_left cstep ops cstate0)) <= 1000)%nat.
Proof. pose proof (ci_cap _ (cache_inv_reachable ops)) as H. unfold CAP in H. exact H. Qed.
