(* ServerIndep.v - what a request does to the stores, the token secrets and the random tape does not depend on the routing
   tables the answer is built from: in particular not on the node id (C15 across a re-key). *)
From MLV Require Import gen.Params model.Bytes model.Crc32c model.Sha1 model.Id model.Node model.BSearch model.Closest model.RTable model.Lru model.Tokens model.Server.
Open Scope N_scope.

Ltac split_all :=
  repeat match goal with
  | |- context [if ?c then _ else _] => destruct c
  | |- context [match ?x with Some _ => _ | None => _ end] => destruct x
  | |- context [let '(_, _) := ?x in _] => destruct x
  | |- context [match ?x with (_, _) => _ end] => destruct x
  end.

Section Indep.
  Variable verify : bytes -> bytes -> bytes -> bool.

  Lemma handle_put_state_indep s rt rt' sys ip port rq token p :
    snd (handle_put verify s rt sys ip port rq token p) = snd (handle_put verify s rt' sys ip port rq token p).
  Proof. unfold handle_put. destruct p; split_all; reflexivity. Qed.

  Lemma handle_get_mutable_state_indep s rt rt' ip target seq :
    snd (handle_get_mutable s rt ip target seq) = snd (handle_get_mutable s rt' ip target seq).
  Proof. unfold handle_get_mutable. split_all; reflexivity. Qed.
End Indep.

Section Indep2.
  Variable verify : bytes -> bytes -> bytes -> bool.

  (* what a request does to the node's stores, to its token secrets and to its random tape does not depend on the routing
     tables it is answered from - in particular not on the node's id: a re-key leaves every token as valid as it was *)
  Theorem step_state_indep_of_tables : forall s rt srt rt' srt' allow now sys tape ip port rq q,
    snd (fst (server_step verify s rt srt allow now sys tape ip port rq q)) = snd (fst (server_step verify s rt' srt' allow now sys tape ip port rq q))
    /\ snd (server_step verify s rt srt allow now sys tape ip port rq q) = snd (server_step verify s rt' srt' allow now sys tape ip port rq q).
  Proof.
    intros s rt srt rt' srt' allow now sys tape ip port rq q.
    unfold server_step. destruct (negb allow); [split; reflexivity|].
    destruct (tok_should_update (toks s) now); [destruct (take_random 20 tape) as [fresh tape']|].
    all: destruct q as [| target | ih | ih | target seq | token p]; try (split; reflexivity).
    all: try (destruct (get_random 20 _ ih _) as [[r st'] tp]; split; reflexivity).
    all: try (destruct (get_random 10 _ ih _) as [[r st'] tp]; split; reflexivity).
    all: try (match goal with |- context [handle_put verify ?s0 ?r1 ?a ?b ?c ?d ?e ?f] =>
           match goal with |- context [handle_put verify s0 ?r2 a b c d e f] =>
             pose proof (handle_put_state_indep verify s0 r1 r2 a b c d e f) as H;
             destruct (handle_put verify s0 r1 a b c d e f); destruct (handle_put verify s0 r2 a b c d e f); cbn [fst snd] in *; subst; split; reflexivity end end).
    all: destruct seq as [sq|].
    all: try (match goal with |- context [lru_get ?t (imm ?s0)] => destruct (lru_get t (imm s0)) as [[v|] i'] end); try (split; reflexivity).
    all: match goal with |- context [handle_get_mutable ?s0 ?r1 ?a ?b ?c] =>
           match goal with |- context [snd (fst (let '(_, _) := handle_get_mutable s0 ?r2 a b c in _)) = _] => idtac | _ => idtac end;
           pose proof (fun r2 => handle_get_mutable_state_indep s0 r1 r2 a b c) as H end.
    all: repeat match goal with |- context [handle_get_mutable ?s0 ?r ?a ?b ?c] =>
           let E := fresh "E" in destruct (handle_get_mutable s0 r a b c) eqn:E; pose proof (f_equal snd E) end.
    all: cbn [fst snd] in *.
    all: repeat match goal with H : forall r2, _ = snd (handle_get_mutable _ r2 _ _ _) |- _ =>
           match goal with E : handle_get_mutable _ ?r _ _ _ = _ |- _ => pose proof (H r); clear E end end.
    all: split; try reflexivity; congruence.
  Qed.
End Indep2.
