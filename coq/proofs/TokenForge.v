(* TokenForge.v — finding F26 (C15): CRC-32C is affine over GF(2), so the difference between the tokens of
   two addresses under one secret does not depend on the secret.  Whoever holds a token issued to one address
   can compute the token of any other address without knowing the secret. *)
From Coq Require Import Lia.
From MLV Require Import gen.Params model.Bytes model.Crc32c model.Node model.Tokens model.Check03
  proofs.IdProofs proofs.TokenProofs proofs.KrpcProofs.
Open Scope N_scope.

Lemma odd_lxor a b : N.odd (N.lxor a b) = xorb (N.odd a) (N.odd b).
Proof. rewrite <- !N.bit0_odd. apply N.lxor_spec. Qed.

Lemma crc_step_lxor a b : crc_step (N.lxor a b) = N.lxor (crc_step a) (crc_step b).
Proof.
  unfold crc_step. rewrite odd_lxor, N.shiftr_lxor.
  destruct (N.odd a), (N.odd b); cbn [xorb].
  - rewrite N.lxor_assoc. rewrite <- (N.lxor_assoc crc_poly). rewrite (N.lxor_comm crc_poly (N.shiftr b 1)).
    rewrite (N.lxor_assoc (N.shiftr b 1)). rewrite N.lxor_nilpotent, N.lxor_0_r. reflexivity.
  - rewrite !N.lxor_assoc. f_equal. apply N.lxor_comm.
  - now rewrite N.lxor_assoc.
  - reflexivity.
Qed.

Lemma iter_step_lxor n : forall a b, iter n crc_step (N.lxor a b) = N.lxor (iter n crc_step a) (iter n crc_step b).
Proof. induction n as [|n IH]; intros a b; [reflexivity|]. cbn [iter]. now rewrite crc_step_lxor, IH. Qed.

Lemma crc_upd_lxor c d b : crc_upd (N.lxor c d) b = N.lxor (crc_upd c b) (iter 8 crc_step d).
Proof.
  unfold crc_upd. rewrite <- iter_step_lxor. f_equal.
  rewrite !N.lxor_assoc. f_equal. apply N.lxor_comm.
Qed.

Lemma iter_iter {A} (f : A -> A) n m x : iter m f (iter n f x) = iter (n + m) f x.
Proof. symmetry. apply iter_plus. Qed.

Lemma crc_fold_lxor bs : forall c d,
  fold_left crc_upd bs (N.lxor c d) = N.lxor (fold_left crc_upd bs c) (iter (8 * length bs) crc_step d).
Proof.
  induction bs as [|b bs IH]; intros c d; [reflexivity|].
  cbn [fold_left]. rewrite crc_upd_lxor, IH. f_equal. rewrite iter_iter. f_equal. cbn [length]. lia.
Qed.

Lemma lxor_self_l a b : N.lxor a (N.lxor a b) = b.
Proof. now rewrite <- N.lxor_assoc, N.lxor_nilpotent, N.lxor_0_l. Qed.

(* the xor of the checksums behind the tokens of two addresses, under a secret of length n, is a function
   of the two addresses and n alone *)
Definition tok_delta (n : nat) (ip ip' : N) : N := iter (8 * n) crc_step (N.lxor (after_ip ip) (after_ip ip')).

Lemma tok_crc_delta secret ip ip' :
  crc32c (N_to_be 4 ip' ++ secret) = N.lxor (crc32c (N_to_be 4 ip ++ secret)) (tok_delta (length secret) ip ip').
Proof.
  rewrite !tok_crc. unfold tok_delta.
  rewrite <- (lxor_self_l (after_ip ip) (after_ip ip')) at 1.
  rewrite crc_fold_lxor. rewrite !N.lxor_assoc. f_equal. apply N.lxor_comm.
Qed.

Theorem token_difference_secret_free s1 s2 ip ip' : length s1 = length s2 ->
  N.lxor (crc32c (N_to_be 4 ip ++ s1)) (crc32c (N_to_be 4 ip' ++ s1)) =
  N.lxor (crc32c (N_to_be 4 ip ++ s2)) (crc32c (N_to_be 4 ip' ++ s2)).
Proof.
  intros L. rewrite (tok_crc_delta s1 ip ip'), (tok_crc_delta s2 ip ip'), !lxor_self_l. now rewrite L.
Qed.

(* what the holder of a token for [ip] computes, with no secret: xor in the difference of the two
   checksums under the all-zero secret *)
Definition zero_secret : bytes := repeat 0 20.
Definition tok_derive (ip ip' : N) (tok : bytes) : bytes :=
  N_to_be 4 (N.lxor (be_to_N tok)
                    (N.lxor (crc32c (N_to_be 4 ip ++ zero_secret)) (crc32c (N_to_be 4 ip' ++ zero_secret)))).

Lemma crc32c_tok_lt secret ip : wf_bytes secret = true -> crc32c (N_to_be 4 ip ++ secret) < 2 ^ 32.
Proof.
  intros W. apply crc32c_lt. unfold wf_bytes. rewrite forallb_app. fold (wf_bytes (N_to_be 4 ip)). fold (wf_bytes secret).
  now rewrite wf_N_to_be_4, W.
Qed.

Theorem token_derivable secret ip ip' : wf_bytes secret = true -> length secret = 20%nat ->
  tok_derive ip ip' (tok_gen secret ip) = tok_gen secret ip'.
Proof.
  intros W L. unfold tok_derive, tok_gen. f_equal.
  destruct (tid_roundtrip (crc32c (N_to_be 4 ip ++ secret)) (crc32c_tok_lt secret ip W)) as [_ ->].
  assert (Lz: length secret = length zero_secret) by (rewrite L; reflexivity).
  rewrite <- (token_difference_secret_free secret zero_secret ip ip' Lz). now rewrite lxor_self_l.
Qed.

(* so a node accepts, from [ip'], a token it never issued to [ip'] *)
Theorem derived_token_validates t ip ip' : wf_bytes (t_curr t) = true -> length (t_curr t) = 20%nat ->
  tok_validate t ip' (tok_derive ip ip' (tok_generate t ip)) = true.
Proof.
  intros W L. unfold tok_generate, tok_validate. rewrite (token_derivable _ ip ip' W L).
  apply orb_true_iff. left. apply bytes_eqb_refl.
Qed.

(* the derivation the correspondence check recognises as the known class (Check03.forge_tok) is this one *)
Lemma check_forge_is_tok_derive ip ip' tok : MLV.model.Check03.forge_tok ip ip' tok = tok_derive ip ip' tok.
Proof. reflexivity. Qed.
