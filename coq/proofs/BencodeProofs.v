(* BencodeProofs.v — the lenient reader reads back what the canonical printer wrote, for every value *)
From Coq Require Import Lia.
From MLV Require Import model.Bytes model.Server model.Bencode.
Open Scope N_scope.

(* ---------- decimal digits ---------- *)
Lemma is_digit_48 d : d < 10 -> is_digit (48 + d) = true.
Proof. intros H. unfold is_digit. apply andb_true_iff. split; apply N.leb_le; lia. Qed.

Lemma dec_digits_val k : forall n acc, n < 10 ^ N.of_nat k -> digits_val (dec_digits k n acc) 0 = digits_val acc n.
Proof.
  induction k as [|k IH]; intros n acc Hn.
  - cbn in Hn. assert (n = 0) by lia. subst. reflexivity.
  - cbn [dec_digits]. assert (Hm: n mod 10 < 10) by (apply N.mod_lt; lia).
    destruct (N.ltb_spec n 10) as [Hlt|Hge].
    + cbn [digits_val]. rewrite is_digit_48 by assumption. rewrite N.mod_small by assumption.
      f_equal. clear - Hlt. lia.
    + rewrite IH.
      * cbn [digits_val]. rewrite is_digit_48 by assumption. f_equal.
        assert (H: n = 10 * (n / 10) + n mod 10) by (apply N.div_mod; discriminate). clear - H Hm.
        set (q := n / 10) in *. set (m := n mod 10) in *. lia.
      * rewrite Nat2N.inj_succ, N.pow_succ_r' in Hn. apply N.div_lt_upper_bound; lia.
Qed.

Lemma dec_digits_all k : forall n acc, forallb is_digit acc = true -> forallb is_digit (dec_digits k n acc) = true.
Proof.
  induction k as [|k IH]; intros n acc Ha; [exact Ha|]. cbn [dec_digits].
  assert (Hd: forallb is_digit ((48 + n mod 10) :: acc) = true).
  { cbn [forallb]. rewrite is_digit_48, Ha; [reflexivity|apply N.mod_lt; lia]. }
  destruct (n <? 10); [exact Hd|now apply IH].
Qed.

Lemma dec_digits_keeps k : forall n acc x, In x acc -> In x (dec_digits k n acc).
Proof.
  induction k as [|k IH]; intros n acc x H; [exact H|]. cbn [dec_digits].
  destruct (n <? 10); [now right|]. apply IH. now right.
Qed.

Lemma dec_N_shape n : exists c r, dec_N n = c :: r /\ is_digit c = true /\ forallb is_digit r = true.
Proof.
  assert (A: forallb is_digit (dec_N n) = true) by (apply dec_digits_all; reflexivity).
  destruct (dec_N n) as [|c r] eqn:E.
  - exfalso. assert (H: In (48 + n mod 10) (dec_N n)).
    { unfold dec_N. change 40%nat with (S 39). generalize 39%nat as k. intros k.
      change (dec_digits (S k) n []) with (if n <? 10 then [48 + n mod 10] else dec_digits k (n / 10) [48 + n mod 10]).
      destruct (n <? 10); [now left|]. apply dec_digits_keeps. now left. }
    rewrite E in H. destruct H.
  - cbn [forallb] in A. apply andb_true_iff in A as [A1 A2]. eauto.
Qed.

Lemma dec_N_val n : n < 10 ^ 40 -> digits_val (dec_N n) 0 = Some n.
Proof. intros H. unfold dec_N. rewrite dec_digits_val; [reflexivity|exact H]. Qed.

Lemma digit_not c x : is_digit c = true -> x < 48 \/ 57 < x -> (c =? x) = false.
Proof.
  unfold is_digit. intros H Hx. apply andb_true_iff in H as [H1 H2]. apply N.leb_le in H1, H2.
  apply N.eqb_neq. lia.
Qed.

Ltac split_pos := repeat (match goal with p : positive |- _ => destruct p end; try reflexivity; try congruence).

Lemma strip_plus_other c r : c <> 43 -> strip_plus (c :: r) = c :: r.
Proof. intros H. unfold strip_plus. destruct c as [|p]; [reflexivity|]. split_pos. Qed.

Lemma sign_split_other c r : c <> 43 -> c <> 45 -> sign_split (c :: r) = (1%Z, c :: r).
Proof. intros H1 H2. unfold sign_split. destruct c as [|p]; [reflexivity|]. split_pos. Qed.

Lemma digit_neq c x : is_digit c = true -> x < 48 \/ 57 < x -> c <> x.
Proof. intros H Hx. apply N.eqb_neq. now apply digit_not. Qed.

Lemma parse_usize_dec n : n <= 18446744073709551615 -> parse_usize (dec_N n) = Some n.
Proof.
  intros H. destruct (dec_N_shape n) as (c & r & E & Hc & Hr). unfold parse_usize.
  assert (V: digits_val (dec_N n) 0 = Some n) by (apply dec_N_val; lia).
  rewrite E in *. rewrite strip_plus_other by (apply digit_neq; [assumption|lia]).
  rewrite V. apply N.leb_le in H. now rewrite H.
Qed.

Lemma parse_i64_dec z : (-9223372036854775808 <= z <= 9223372036854775807)%Z -> parse_i64 (dec_Z z) = Some z.
Proof.
  intros Hz. destruct z as [|p|p]; cbn [dec_Z].
  - reflexivity.
  - destruct (dec_N_shape (Npos p)) as (c & r & E & Hc & Hr).
    assert (V: digits_val (dec_N (Npos p)) 0 = Some (Npos p)) by (apply dec_N_val; lia).
    rewrite E in *. unfold parse_i64.
    rewrite sign_split_other by (apply digit_neq; [assumption|lia]). rewrite V.
    assert (R: ((-9223372036854775808 <=? 1 * Z.of_N (N.pos p)) && (1 * Z.of_N (N.pos p) <=? 9223372036854775807))%Z = true).
    { apply andb_true_iff. split; apply Z.leb_le; lia. }
    rewrite R. try reflexivity; try (f_equal; lia).
  - destruct (dec_N_shape (Npos p)) as (c & r & E & Hc & Hr).
    assert (V: digits_val (dec_N (Npos p)) 0 = Some (Npos p)) by (apply dec_N_val; lia).
    unfold parse_i64. change (sign_split (45 :: dec_N (N.pos p))) with ((-1)%Z, dec_N (N.pos p)).
    rewrite E in *. rewrite V.
    assert (R: ((-9223372036854775808 <=? -1 * Z.of_N (N.pos p)) && (-1 * Z.of_N (N.pos p) <=? 9223372036854775807))%Z = true).
    { apply andb_true_iff. split; apply Z.leb_le; lia. }
    rewrite R. try reflexivity; try (f_equal; lia).
Qed.

(* ---------- splitting at the terminator ---------- *)
Lemma split_at_digits c ds : forallb is_digit ds = true -> (c < 48 \/ 57 < c) ->
  forall rest acc, split_at_byte c (ds ++ c :: rest) acc = Some (rev acc ++ ds, rest).
Proof.
  intros Hd Hc. induction ds as [|d ds IH]; intros rest acc; cbn [app split_at_byte].
  - rewrite N.eqb_refl. now rewrite app_nil_r.
  - cbn [forallb] in Hd. apply andb_true_iff in Hd as [H1 H2]. rewrite (digit_not d c H1 Hc).
    rewrite IH by assumption. cbn [rev]. now rewrite <- app_assoc.
Qed.

Lemma firstn_app_len {A} (a b : list A) : firstn (length a) (a ++ b) = a.
Proof. induction a as [|x a IH]; cbn; [now destruct b|now rewrite IH]. Qed.
Lemma skipn_app_len {A} (a b : list A) : skipn (length a) (a ++ b) = b.
Proof. induction a as [|x a IH]; cbn; [reflexivity|exact IH]. Qed.

(* ---------- well-formed values ---------- *)
Fixpoint ben_wf (v : ben) : bool :=
  match v with
  | BInt z => ((-9223372036854775808 <=? z) && (z <=? 9223372036854775807))%Z
  | BStr s => N.of_nat (length s) <=? 18446744073709551615
  | BList l => forallb ben_wf l
  | BDict d => forallb (fun kv => ben_wf (fst kv) && ben_wf (snd kv)) d
  end.

(* induction principle that reaches inside lists and dictionaries *)
Section BenInd.
  Variable P : ben -> Prop.
  Hypothesis Hi : forall z, P (BInt z).
  Hypothesis Hs : forall s, P (BStr s).
  Hypothesis Hl : forall l, Forall P l -> P (BList l).
  Hypothesis Hd : forall d, Forall (fun kv => P (fst kv) /\ P (snd kv)) d -> P (BDict d).
  Fixpoint ben_ind' (v : ben) : P v :=
    match v with
    | BInt z => Hi z
    | BStr s => Hs s
    | BList l => Hl l ((fix go (l : list ben) : Forall P l :=
                          match l with [] => Forall_nil _ | x :: r => Forall_cons _ (ben_ind' x) (go r) end) l)
    | BDict d => Hd d ((fix go (d : list (ben * ben)) : Forall (fun kv => P (fst kv) /\ P (snd kv)) d :=
                          match d with
                          | [] => Forall_nil _
                          | kv :: r => Forall_cons _ (conj (ben_ind' (fst kv)) (ben_ind' (snd kv))) (go r)
                          end) d)
    end.
End BenInd.

Lemma enc_nonempty v : (1 <= length (enc v))%nat.
Proof. destruct v; cbn [enc]; rewrite ?app_length; cbn [length]; lia. Qed.

(* ---------- the list and dictionary loops of the reader, named ---------- *)
Definition items_of (f : bytes -> option (ptok * bytes)) :=
  fix items (fuel' : nat) (l' : bytes) (acc : list ben) {struct fuel'} : option (ptok * bytes) :=
    match fuel' with
    | O => None
    | S k' => match f l' with
              | Some (TEnd, rest) => Some (TVal (BList (rev acc)), rest)
              | Some (TVal v, rest) => items k' rest (v :: acc)
              | None => None
              end
    end.

Definition pairs_of (f : bytes -> option (ptok * bytes)) :=
  fix pairs (fuel' : nat) (l' : bytes) (acc : list (ben * ben)) {struct fuel'} : option (ptok * bytes) :=
    match fuel' with
    | O => None
    | S k' => match f l' with
              | Some (TEnd, rest) => Some (TVal (BDict (rev acc)), rest)
              | Some (TVal key, rest) =>
                  match f rest with
                  | Some (TVal v, rest') => pairs k' rest' ((key, v) :: acc)
                  | _ => None
                  end
              | None => None
              end
    end.

Lemma lex_unfold k c r :
  lex (S k) (c :: r) =
  if c =? 105 then
    match split_at_byte 101 r [] with
    | Some (ds, rest) => match parse_i64 ds with Some z => Some (TVal (BInt z), rest) | None => None end
    | None => None
    end
  else if is_digit c then
    match split_at_byte 58 r [c] with
    | Some (ds, rest) =>
        match parse_usize ds with
        | Some n => if N.of_nat (length rest) <? n then None
                    else Some (TVal (BStr (firstn (N.to_nat n) rest)), skipn (N.to_nat n) rest)
        | None => None
        end
    | None => None
    end
  else if c =? 108 then items_of (lex k) k r []
  else if c =? 100 then pairs_of (lex k) k r []
  else if c =? 101 then Some (TEnd, r)
  else None.
Proof. reflexivity. Qed.

Lemma items_spec f l : forall fuel' rest acc,
  (length l < fuel')%nat ->
  Forall (fun x => forall r, f (enc x ++ r) = Some (TVal x, r)) l ->
  (forall r, f (101 :: r) = Some (TEnd, r)) ->
  items_of f fuel' (flat_map enc l ++ 101 :: rest) acc = Some (TVal (BList (rev acc ++ l)), rest).
Proof.
  induction l as [|x l IH]; intros fuel' rest acc Hf Hx He; destruct fuel' as [|k']; try (cbn in Hf; lia).
  - cbn [flat_map app items_of]. rewrite He. now rewrite app_nil_r.
  - inversion Hx as [|? ? Hx1 Hx2]; subst. cbn [flat_map items_of]. rewrite <- app_assoc, Hx1.
    rewrite IH; [|cbn in Hf; lia|assumption|assumption]. cbn [rev]. now rewrite <- app_assoc.
Qed.

Lemma pairs_spec f d : forall fuel' rest acc,
  (length d < fuel')%nat ->
  Forall (fun kv => (forall r, f (enc (fst kv) ++ r) = Some (TVal (fst kv), r)) /\
                    (forall r, f (enc (snd kv) ++ r) = Some (TVal (snd kv), r))) d ->
  (forall r, f (101 :: r) = Some (TEnd, r)) ->
  pairs_of f fuel' (flat_map (fun kv => enc (fst kv) ++ enc (snd kv)) d ++ 101 :: rest) acc
  = Some (TVal (BDict (rev acc ++ d)), rest).
Proof.
  induction d as [|[k v] d IH]; intros fuel' rest acc Hf Hx He; destruct fuel' as [|k']; try (cbn in Hf; lia).
  - cbn [flat_map app pairs_of]. rewrite He. now rewrite app_nil_r.
  - inversion Hx as [|? ? [Hk Hv] Hx2]; subst. cbn [fst snd] in *. cbn [flat_map pairs_of fst snd].
    rewrite <- !app_assoc, Hk, Hv.
    rewrite IH; [|cbn in Hf; lia|assumption|assumption]. cbn [rev]. now rewrite <- app_assoc.
Qed.

Lemma flat_map_len_ge {A} (f : A -> bytes) (l : list A) : (forall x, 1 <= length (f x))%nat -> (length l <= length (flat_map f l))%nat.
Proof. intros H. induction l as [|x l IH]; cbn [flat_map length]; [lia|]. rewrite app_length. specialize (H x). lia. Qed.

Lemma flat_map_len_in {A} (f : A -> bytes) (l : list A) x : In x l -> (length (f x) <= length (flat_map f l))%nat.
Proof. induction l as [|y l IH]; intros []; cbn [flat_map]; rewrite app_length; [subst; lia|specialize (IH H); lia]. Qed.

(* the reader, given more fuel than the encoding is long, reads back exactly the value and stops right after it *)
Theorem lex_enc v : ben_wf v = true -> forall fuel rest, (length (enc v) < fuel)%nat ->
  lex fuel (enc v ++ rest) = Some (TVal v, rest).
Proof.
  induction v as [z|s|l IH|d IH] using ben_ind'; intros W fuel rest Hf; (destruct fuel as [|k]; [lia|]).
  - (* integer *)
    cbn [enc app]. rewrite lex_unfold. cbn [N.eqb Pos.eqb]. rewrite <- app_assoc. cbn [app].
    assert (D: exists pre ds, dec_Z z = pre ++ ds /\ forallb is_digit ds = true /\ (pre = [] \/ pre = [45])).
    { destruct z as [|p|p]; cbn [dec_Z].
      - exists [], [48]; auto.
      - destruct (dec_N_shape (Npos p)) as (c & r & E & Hc & Hr). rewrite E.
        exists [], (c :: r). cbn [forallb app]. rewrite Hc, Hr. auto.
      - destruct (dec_N_shape (Npos p)) as (c & r & E & Hc & Hr). rewrite E.
        exists [45], (c :: r). cbn [forallb app]. rewrite Hc, Hr. auto. }
    destruct D as (pre & ds & Ez & Hds & Hpre).
    assert (SP: split_at_byte 101 (dec_Z z ++ 101 :: rest) [] = Some (dec_Z z, rest)).
    { rewrite Ez. destruct Hpre as [->| ->]; cbn [app].
      - now rewrite (split_at_digits 101 ds Hds (or_intror eq_refl) rest []).
      - cbn [split_at_byte N.eqb Pos.eqb]. now rewrite (split_at_digits 101 ds Hds (or_intror eq_refl) rest [45]). }
    rewrite SP. cbn [ben_wf] in W. apply andb_true_iff in W as [W1 W2]. apply Z.leb_le in W1, W2.
    now rewrite parse_i64_dec by lia.
  - (* byte string *)
    cbn [enc]. cbn [ben_wf] in W. apply N.leb_le in W.
    destruct (dec_N_shape (N.of_nat (length s))) as (c & r & E & Hc & Hr). rewrite E. cbn [app].
    rewrite lex_unfold. rewrite (digit_not c 105 Hc (or_intror eq_refl)). rewrite Hc.
    rewrite <- app_assoc. cbn [app].
    rewrite (split_at_digits 58 r Hr (or_intror eq_refl) (s ++ rest) [c]). cbn [rev app].
    rewrite <- E, parse_usize_dec by exact W.
    assert (L: (N.of_nat (length (s ++ rest)) <? N.of_nat (length s)) = false).
    { apply N.ltb_ge. rewrite app_length. lia. }
    rewrite L, Nat2N.id. now rewrite firstn_app_len, skipn_app_len.
  - (* list *)
    cbn [enc app]. rewrite lex_unfold. cbn [N.eqb Pos.eqb is_digit N.leb N.compare Pos.compare Pos.compare_cont andb].
    rewrite <- app_assoc. cbn [app].
    cbn [enc] in Hf. rewrite !app_length in Hf. cbn [length] in Hf.
    pose proof (flat_map_len_ge enc l enc_nonempty) as Hlen.
    rewrite (items_spec (lex k) l k rest []); [reflexivity|lia| |].
    + cbn [ben_wf] in W. rewrite forallb_forall in W. rewrite Forall_forall in IH |- *.
      intros x Hx r. apply IH; [assumption|now apply W|]. pose proof (flat_map_len_in enc l x Hx). lia.
    + intros r. destruct k as [|k0]; [lia|]. now rewrite lex_unfold.
  - (* dictionary *)
    cbn [enc app]. rewrite lex_unfold. cbn [N.eqb Pos.eqb is_digit N.leb N.compare Pos.compare Pos.compare_cont andb].
    rewrite <- app_assoc. cbn [app].
    cbn [enc] in Hf. rewrite !app_length in Hf. cbn [length] in Hf.
    pose (g := fun kv : ben * ben => enc (fst kv) ++ enc (snd kv)).
    change (flat_map (fun kv : ben * ben => enc (fst kv) ++ enc (snd kv)) d) with (flat_map g d) in Hf.
    assert (G1: forall kv, (1 <= length (g kv))%nat) by (intros kv; unfold g; rewrite app_length; pose proof (enc_nonempty (fst kv)); lia).
    pose proof (flat_map_len_ge g d G1) as Hlen.
    rewrite (pairs_spec (lex k) d k rest []); [reflexivity|lia| |].
    + cbn [ben_wf] in W. rewrite forallb_forall in W. rewrite Forall_forall in IH |- *.
      intros kv Hkv. specialize (W kv Hkv). apply andb_true_iff in W as [Wk Wv]. destruct (IH kv Hkv) as [IHk IHv].
      pose proof (flat_map_len_in g d kv Hkv) as Hg. unfold g in Hg at 1. rewrite app_length in Hg.
      split; intros r; [apply IHk|apply IHv]; try assumption; lia.
    + intros r. destruct k as [|k0]; [lia|]. now rewrite lex_unfold.
Qed.

(* the round trip of the byte-level codec: for every well-formed value and whatever follows it in the
   datagram, the lenient reader returns that value and the rest *)
Theorem ben_parse_enc v rest : ben_wf v = true -> ben_parse (enc v ++ rest) = Some (v, rest).
Proof.
  intros W. unfold ben_parse. rewrite lex_enc; [reflexivity|assumption|]. rewrite app_length. lia.
Qed.

(* the printer is injective on well-formed values (a consequence: no two messages share an encoding) *)
Theorem enc_injective v w : ben_wf v = true -> ben_wf w = true -> enc v = enc w -> v = w.
Proof.
  intros Wv Ww E. pose proof (ben_parse_enc v [] Wv) as Pv. pose proof (ben_parse_enc w [] Ww) as Pw.
  rewrite E in Pv. rewrite Pv in Pw. now injection Pw.
Qed.
