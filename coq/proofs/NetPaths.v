(* NetPaths.v — lookups follow every chain of responding nodes, of any length (C01's crash clause in its
   general form, C13's "discoverable"): what a lookup reaches is closed under "a responding node lists". *)
From Coq Require Import List Arith Bool Lia.
From MLV Require Import model.NetModel proofs.NetProofs.
Import ListNotations.

(* a chain x1, x2, ..., xn: every node but the last responds and lists its successor in its main table *)
Fixpoint chain (nt : net) (l : list nat) : Prop :=
  match l with
  | x :: (y :: _) as t => responds nt x = true /\ mem y (n_main (get nt x)) = true /\ chain nt t
  | _ => True
  end.

Definition reaches (nt : net) (a c : nat) : Prop := exists l, chain nt (a :: l) /\ last (a :: l) a = c.

Lemma chain_tail nt x t : chain nt (x :: t) -> chain nt t.
Proof. destruct t as [|y t]; cbn; [trivial|tauto]. Qed.

Lemma chain_app_r nt l1 : forall l2, chain nt (l1 ++ l2) -> chain nt l2.
Proof.
  induction l1 as [|x l1 IH]; intros l2 H; [exact H|]. apply IH. apply (chain_tail nt x). exact H.
Qed.

Lemma last_cons_ne {A} (x : A) t d d' : t <> [] -> last (x :: t) d = last t d'.
Proof.
  revert x. induction t as [|y t IH]; intros x Hne; [contradiction|].
  destruct t as [|z t]; [reflexivity|]. change (last (x :: y :: z :: t) d) with (last (y :: z :: t) d).
  change (last (y :: z :: t) d') with (last (z :: t) d'). rewrite <- (IH y) by discriminate. reflexivity.
Qed.

Lemma last_default {A} (l : list A) d d' : l <> [] -> last l d = last l d'.
Proof.
  induction l as [|x t IH]; intros Hne; [contradiction|]. destruct t as [|y t]; [reflexivity|].
  change (last (x :: y :: t) d) with (last (y :: t) d). change (last (x :: y :: t) d') with (last (y :: t) d').
  apply IH. discriminate.
Qed.

Lemma last_app_cons {A} (l1 : list A) x l2 d : last (l1 ++ x :: l2) d = last (x :: l2) d.
Proof.
  induction l1 as [|y l1 IH]; [reflexivity|]. rewrite <- IH. cbn [app].
  apply last_cons_ne. destruct l1; discriminate.
Qed.

Lemma NoDup_app_r {A} (l1 l2 : list A) : NoDup (l1 ++ l2) -> NoDup l2.
Proof. induction l1 as [|x l1 IH]; intros H; [exact H|]. inversion H; subst. now apply IH. Qed.

(* loops can be cut out: a chain with the same ends and no node twice *)
Lemma chain_simple nt : forall l, l <> [] -> chain nt l ->
  exists l', l' <> [] /\ chain nt l' /\ hd 0 l' = hd 0 l /\ last l' 0 = last l 0 /\ NoDup l'.
Proof.
  induction l as [|x t IH]; intros Hne Hc; [contradiction|].
  destruct t as [|y t].
  - exists [x]. split; [discriminate|]. split; [exact I|]. split; [reflexivity|]. split; [reflexivity|].
    constructor; [intros []|constructor].
  - destruct Hc as (Hr & Hm & Hc).
    destruct (IH ltac:(discriminate) Hc) as (t' & Hne' & Hc' & Hhd & Hlast & Hnd).
    destruct (in_dec Nat.eq_dec x t') as [Hin|Hnin].
    + apply in_split in Hin as (l1 & l2 & ->).
      exists (x :: l2). repeat split.
      * discriminate.
      * apply (chain_app_r nt l1). exact Hc'.
      * rewrite last_app_cons in Hlast. rewrite Hlast. symmetry. apply last_cons_ne. discriminate.
      * apply NoDup_remove in Hnd as (Hnd & Hx). constructor.
        -- intros Hin. apply Hx. apply in_or_app. now right.
        -- apply NoDup_app_r in Hnd. exact Hnd.
    + exists (x :: t'). repeat split.
      * discriminate.
      * destruct t' as [|y' t'']; [contradiction|]. cbn [hd] in Hhd. subst y'. cbn [chain]. auto.
      * rewrite (last_cons_ne x t' 0 0 Hne'). rewrite Hlast. symmetry. apply last_cons_ne. discriminate.
      * now constructor.
Qed.

(* every node of a chain but the last is a node of the network *)
Lemma responds_lt nt c : responds nt c = true -> c < length nt.
Proof.
  intros H. destruct (Nat.lt_ge_cases c (length nt)) as [|Hge]; [assumption|].
  unfold responds, get in H. rewrite nth_overflow in H by lia. discriminate.
Qed.

Lemma chain_front_lt nt : forall l, chain nt l -> forall x, In x (removelast l) -> x < length nt.
Proof.
  induction l as [|x t IH]; intros Hc z Hz; [contradiction|].
  destruct t as [|y t]; [contradiction|]. destruct Hc as (Hr & _ & Hc).
  change (removelast (x :: y :: t)) with (x :: removelast (y :: t)) in Hz. destruct Hz as [<-|Hz].
  - now apply responds_lt.
  - now apply IH.
Qed.

Lemma NoDup_removelast {A} (l : list A) : NoDup l -> NoDup (removelast l).
Proof.
  induction l as [|x t IH]; intros H; [constructor|]. destruct t as [|y t]; [constructor|].
  change (removelast (x :: y :: t)) with (x :: removelast (y :: t)).
  inversion H as [|? ? Hx Hn]; subst. constructor; [|now apply IH].
  intros Hin. apply Hx. clear -Hin. revert Hin. generalize (y :: t). intros l.
  induction l as [|a l IHl]; [contradiction|]. destruct l as [|b l]; [contradiction|].
  change (removelast (a :: b :: l)) with (a :: removelast (b :: l)). intros [->|Hin]; [now left|right; now apply IHl].
Qed.

Lemma length_removelast {A} (l : list A) : l <> [] -> length l = S (length (removelast l)).
Proof.
  intros Hne.
  induction l as [|x t IH]; [contradiction|]. destruct t as [|y t]; [reflexivity|].
  change (removelast (x :: y :: t)) with (x :: removelast (y :: t)). cbn [length]. f_equal. apply IH. discriminate.
Qed.

Lemma simple_chain_short nt l : l <> [] -> chain nt l -> NoDup l -> length l <= S (length nt).
Proof.
  intros Hne Hc Hnd. rewrite (length_removelast l Hne). apply le_n_S.
  rewrite <- (seq_length (length nt) 0). apply NoDup_incl_length; [now apply NoDup_removelast|].
  intros x Hx. apply in_seq. split; [lia|]. cbn. now apply (chain_front_lt nt l).
Qed.

(* a lookup's rounds walk along a chain: after n rounds everything at most n steps down the chain is in *)
Lemma iter_chain nt find : forall l n v, l <> [] -> chain nt l -> mem (hd 0 l) v = true -> length l <= S n ->
  mem (last l 0) (iter n (expand nt find) v) = true.
Proof.
  induction l as [|x t IH]; intros n v Hne Hc Hx Hlen; [contradiction|].
  destruct t as [|y t].
  - cbn [last]. cbn [hd] in Hx. now apply iter_mono.
  - destruct Hc as (Hr & Hm & Hc). destruct n as [|n]; [cbn in Hlen; lia|].
    cbn [iter]. rewrite (last_cons_ne x (y :: t) 0 0) by discriminate.
    apply IH; [discriminate|exact Hc| |cbn in Hlen |- *; lia].
    cbn [hd] in Hx |- *. apply (expand_reply _ _ _ x); [exact Hx|exact Hr|now apply reply_main].
Qed.

(* the end of any chain that starts at a seed is queried *)
Theorem queried_chain nt j find key l : l <> [] -> chain nt l -> mem (hd 0 l) (seeds nt j find key) = true ->
  mem (last l 0) (queried nt j find key) = true.
Proof.
  intros Hne Hc Hs. destruct (chain_simple nt l Hne Hc) as (l' & Hne' & Hc' & Hhd & Hlast & Hnd).
  rewrite <- Hlast. unfold queried. apply iter_chain; [assumption|assumption|now rewrite Hhd|].
  pose proof (simple_chain_short nt l' Hne' Hc' Hnd). lia.
Qed.

Lemma reaches_chain nt a c : reaches nt a c -> exists l, l <> [] /\ chain nt l /\ hd 0 l = a /\ last l 0 = c.
Proof.
  intros (l & Hc & Hl). exists (a :: l). repeat split; [discriminate|assumption|].
  rewrite <- Hl. apply last_default. discriminate.
Qed.

(* whoever the reader's table leads to over responding nodes, however far, is asked *)
Theorem queried_reaches nt j find key d c :
  mem d (n_main (get nt j)) = true -> reaches nt d c -> mem c (queried nt j find key) = true.
Proof.
  intros Hd Hr. apply reaches_chain in Hr as (l & Hne & Hc & Hhd & Hlast). rewrite <- Hlast.
  apply queried_chain; [assumption|assumption|]. rewrite Hhd. now apply seeds_main.
Qed.

(* C01, general form of the read: the reader knows a node from which a chain of responding nodes leads to a
   responding holder other than the reader itself *)
Theorem get_finds_reaches nt r key d c :
  mem d (n_main (get nt r)) = true -> reaches nt d c -> responds nt c = true -> c <> r ->
  mem key (n_store (get nt c)) = true -> get_finds nt r key = true.
Proof.
  intros Hd Hr Hc Hne Hk. unfold get_finds. apply existsb_exists. exists c. split; [|exact Hk].
  apply mem_in. rewrite mem_union. apply orb_true_iff. left. apply mem_responders.
  repeat split; [now apply (queried_reaches _ _ _ _ d)|assumption|assumption].
Qed.

(* ... and of the write: every responding node the writer's table leads to stores the key *)
Theorem put_stores_reaches nt w key d c :
  mem d (n_main (get nt w)) = true -> reaches nt d c -> responds nt c = true -> c <> w ->
  mem key (n_store (get (fst (put nt w key)) c)) = true /\ snd (put nt w key) = true.
Proof.
  intros Hd Hr Hc Hne. apply put_stores; [now apply responds_lt|].
  apply mem_responders. repeat split; [now apply (queried_reaches _ _ _ _ d)|assumption|assumption].
Qed.

(* chains survive what keeps tables, liveness and modes: a put ... *)
Lemma chain_put nt w key : forall l, chain nt l -> chain (fst (put nt w key)) l.
Proof.
  induction l as [|x t IH]; intros Hc; [exact I|]. destruct t as [|y t]; [exact I|].
  destruct Hc as (Hr & Hm & Hc). pose proof (responds_lt nt x Hr) as Hx.
  destruct (put_keeps nt w key x Hx) as (Fa & Fs & Fm & _).
  cbn [chain]. repeat split; [unfold responds in *; now rewrite Fa, Fs|now apply Fm|now apply IH].
Qed.

Lemma reaches_put nt w key a c : reaches nt a c -> reaches (fst (put nt w key)) a c.
Proof. intros (l & Hc & Hl). exists l. split; [now apply chain_put|assumption]. Qed.

(* ... and the crash of any node that is not on the chain (the last node of a chain need not respond, so only the
   nodes before it matter; the holder's liveness is a separate hypothesis of the read) *)
Lemma get_crash_other nt x i : i <> x -> get (crash nt x) i = get nt i.
Proof.
  intros Hne. destruct (Nat.lt_ge_cases i (length nt)) as [Hi|Hi].
  - unfold crash. rewrite get_upd by assumption. destruct (Nat.eqb_spec i x); [contradiction|reflexivity].
  - unfold get. rewrite !nth_overflow; [reflexivity|lia|unfold crash; rewrite upd_length; lia].
Qed.

Lemma chain_crash nt x : forall l, chain nt l -> ~ In x (removelast l) -> chain (crash nt x) l.
Proof.
  induction l as [|a t IH]; intros Hc Hn; [exact I|]. destruct t as [|b t]; [exact I|].
  destruct Hc as (Hr & Hm & Hc). change (removelast (a :: b :: t)) with (a :: removelast (b :: t)) in Hn.
  assert (Ha: a <> x) by (intros ->; apply Hn; now left).
  cbn [chain]. unfold responds. rewrite (get_crash_other nt x a Ha). repeat split; [exact Hr|exact Hm|].
  apply IH; [exact Hc|]. intros Hin. apply Hn. now right.
Qed.

Lemma responds_crash_other nt x i : i <> x -> responds (crash nt x) i = responds nt i.
Proof. intros H. unfold responds. now rewrite get_crash_other. Qed.

Lemma store_crash nt x i : n_store (get (crash nt x) i) = n_store (get nt i).
Proof.
  destruct (Nat.eq_dec i x) as [->|Hne]; [|now rewrite get_crash_other].
  destruct (Nat.lt_ge_cases x (length nt)) as [Hi|Hi].
  - unfold crash. rewrite get_upd by assumption. now rewrite Nat.eqb_refl.
  - unfold get. rewrite !nth_overflow; [reflexivity|lia|unfold crash; rewrite upd_length; lia].
Qed.

Lemma main_crash nt x i : n_main (get (crash nt x) i) = n_main (get nt i).
Proof.
  destruct (Nat.eq_dec i x) as [->|Hne]; [|now rewrite get_crash_other].
  destruct (Nat.lt_ge_cases x (length nt)) as [Hi|Hi].
  - unfold crash. rewrite get_upd by assumption. now rewrite Nat.eqb_refl.
  - unfold get. rewrite !nth_overflow; [reflexivity|lia|unfold crash; rewrite upd_length; lia].
Qed.

Fixpoint crash_all (nt : net) (xs : list nat) : net := match xs with [] => nt | x :: r => crash_all (crash nt x) r end.

Lemma chain_crash_all xs : forall nt l, chain nt l -> (forall x, In x xs -> ~ In x (removelast l)) -> chain (crash_all nt xs) l.
Proof.
  induction xs as [|x xs IH]; intros nt l Hc Hn; [exact Hc|]. cbn [crash_all].
  apply IH; [apply chain_crash; [exact Hc|apply Hn; now left]|]. intros y Hy. apply Hn. now right.
Qed.

Lemma responds_crash_all xs : forall nt i, ~ In i xs -> responds (crash_all nt xs) i = responds nt i.
Proof.
  induction xs as [|x xs IH]; intros nt i Hn; [reflexivity|]. cbn [crash_all].
  rewrite IH by (intros H; apply Hn; now right). apply responds_crash_other. intros ->. apply Hn. now left.
Qed.

Lemma store_crash_all xs : forall nt i, n_store (get (crash_all nt xs) i) = n_store (get nt i).
Proof. induction xs as [|x xs IH]; intros nt i; [reflexivity|]. cbn [crash_all]. now rewrite IH, store_crash. Qed.

Lemma main_crash_all xs : forall nt i, n_main (get (crash_all nt xs) i) = n_main (get nt i).
Proof. induction xs as [|x xs IH]; intros nt i; [reflexivity|]. cbn [crash_all]. now rewrite IH, main_crash. Qed.

(* C01 in one statement, for any subset of crashes - the first node included: the writer's table leads to a
   responding node c (so the put returns Ok and c acknowledged it); afterwards any set xs of nodes crashes; the reader
   still knows a node d from which a chain of nodes outside xs leads to c, and c is outside xs and is not the reader:
   the read returns the value. *)
Theorem put_crash_get nt w r key dw c xs l :
  mem dw (n_main (get nt w)) = true -> reaches nt dw c -> responds nt c = true -> c <> w ->
  let nt1 := fst (put nt w key) in
  let nt2 := crash_all nt1 xs in
  l <> [] -> chain nt1 l -> mem (hd 0 l) (n_main (get nt1 r)) = true -> last l 0 = c ->
  (forall x, In x xs -> ~ In x l) -> c <> r ->
  snd (put nt w key) = true /\ get_finds nt2 r key = true.
Proof.
  intros Hdw Hrw Hc Hcw nt1 nt2 Hne Hch Hhd Hlast Hxs Hcr.
  destruct (put_stores_reaches nt w key dw c Hdw Hrw Hc Hcw) as (Hst & Hok). split; [exact Hok|].
  assert (Hcl: In c l).
  { rewrite <- Hlast. destruct l as [|a t]; [contradiction|]. clear. revert a. induction t as [|b t IH]; intros a; [now left|].
    right. rewrite (last_cons_ne a (b :: t) 0 0) by discriminate. apply IH. }
  apply (get_finds_reaches nt2 r key (hd 0 l) c).
  - unfold nt2. now rewrite main_crash_all.
  - destruct l as [|a t]; [contradiction|]. exists t. cbn [hd]. split.
    + unfold nt2. apply chain_crash_all; [exact Hch|]. intros x Hx Hin. apply (Hxs x Hx).
      clear -Hin. revert Hin. generalize (a :: t). intros l. induction l as [|u l IHl]; [contradiction|].
      destruct l as [|v l]; [contradiction|]. change (removelast (u :: v :: l)) with (u :: removelast (v :: l)).
      intros [->|Hin]; [now left|right; now apply IHl].
    + rewrite <- Hlast. apply last_default. discriminate.
  - unfold nt2. rewrite responds_crash_all; [|intros Hin; exact (Hxs c Hin Hcl)].
    unfold nt1. destruct (put_keeps nt w key c (responds_lt nt c Hc)) as (Fa & Fs & _). unfold responds in *. now rewrite Fa, Fs.
  - exact Hcr.
  - unfold nt2. rewrite store_crash_all. exact Hst.
Qed.

(* C13, "every joined server is discoverable", in the general form: when the knows-graph of the responding nodes is
   strongly connected, a lookup started on any node that knows one responding node queries every responding node and
   ends with each of them in the table of the node that asked *)
Definition strongly_connected (nt : net) : Prop :=
  forall a b, responds nt a = true -> responds nt b = true -> reaches nt a b.

Theorem connected_lookup_queries_all nt j find d s :
  strongly_connected nt -> j < length nt -> mem d (n_main (get nt j)) = true -> responds nt d = true ->
  responds nt s = true -> s <> j ->
  mem s (responders nt j find None) = true /\ mem s (n_main (get (lookup nt j find None) j)) = true.
Proof.
  intros Hsc Hj Hd Hrd Hrs Hne.
  assert (R: mem s (responders nt j find None) = true).
  { apply mem_responders. repeat split; [|assumption|assumption]. apply (queried_reaches _ _ _ _ d); [assumption|now apply Hsc]. }
  split; [exact R|]. destruct (lookup_self nt j find None Hj) as [Em _]. rewrite Em, mem_union. cbn [effective].
  rewrite R. apply orb_true_r.
Qed.

(* the networks the history theorems speak about are strongly connected in this sense: everybody responding is
   listed by the first node and knows it *)
Lemma hubbed_strongly_connected nt :
  responds nt 0 = true ->
  (forall a, responds nt a = true -> a <> 0 -> mem 0 (n_main (get nt a)) = true /\ mem a (n_main (get nt 0)) = true) ->
  strongly_connected nt.
Proof.
  intros H0 H a b Ha Hb.
  destruct (Nat.eq_dec a b) as [->|Hab]; [exists []; split; [exact I|reflexivity]|].
  destruct (Nat.eq_dec a 0) as [->|Ha0].
  - assert (Hb0: b <> 0) by (intros ->; now apply Hab).
    exists [b]. split; [|reflexivity]. cbn [chain]. repeat split; [assumption|]. exact (proj2 (H b Hb Hb0)).
  - destruct (Nat.eq_dec b 0) as [->|Hb0].
    + exists [0]. split; [|reflexivity]. cbn [chain]. repeat split; [assumption|]. exact (proj1 (H a Ha Ha0)).
    + exists [0; b]. split; [|reflexivity]. cbn [chain].
      repeat split; [assumption|exact (proj1 (H a Ha Ha0))|assumption|exact (proj2 (H b Hb Hb0))].
Qed.

(* every network reached through an admissible history in which every node but the first was given bootstrap nodes *)
Theorem hub_strongly_connected nt :
  hub_inv nt -> (forall a, 0 < a < length nt -> n_boots (get nt a) <> []) -> strongly_connected nt.
Proof.
  intros [Hl [H0 Hb0] Ha Hk] Hb. apply hubbed_strongly_connected; [exact H0|].
  intros a Hra Hne. pose proof (responds_lt nt a Hra) as Hlt.
  assert (Hpos: 0 < a < length nt) by lia. split.
  - destruct (Ha a Hlt (Hb a Hpos)) as [E|H]; [lia|exact H].
  - apply Hk; [exact Hpos|now apply Hb|]. unfold responds in Hra. apply andb_true_iff in Hra. tauto.
Qed.

Lemma responds_put nt w key c : responds nt c = true -> responds (fst (put nt w key)) c = true.
Proof.
  intros Hc. destruct (put_keeps nt w key c (responds_lt nt c Hc)) as (Fa & Fs & _).
  unfold responds in *. now rewrite Fa, Fs.
Qed.

Lemma main_put nt w key r x : mem x (n_main (get nt r)) = true -> mem x (n_main (get (fst (put nt w key)) r)) = true.
Proof.
  intros Hx. destruct (Nat.lt_ge_cases r (length nt)) as [Hr|Hr].
  - destruct (put_keeps nt w key r Hr) as (_ & _ & Fm & _). now apply Fm.
  - unfold get in Hx. rewrite nth_overflow in Hx by lia. discriminate.
Qed.

(* C01 in a strongly connected network: whoever knows one responding node writes successfully, and whoever knows one
   responding node reads the value afterwards - provided some responding node other than the writer and the reader
   exists to hold it *)
Theorem put_then_get_strongly_connected nt w r key dw dr c :
  strongly_connected nt ->
  mem dw (n_main (get nt w)) = true -> responds nt dw = true ->
  mem dr (n_main (get nt r)) = true -> responds nt dr = true ->
  responds nt c = true -> c <> w -> c <> r ->
  snd (put nt w key) = true /\ get_finds (fst (put nt w key)) r key = true.
Proof.
  intros Hsc Hdw Hrdw Hdr Hrdr Hc Hcw Hcr.
  destruct (put_stores_reaches nt w key dw c Hdw (Hsc dw c Hrdw Hc) Hc Hcw) as (Hst & Hok).
  split; [exact Hok|].
  apply (get_finds_reaches _ r key dr c).
  - now apply main_put.
  - apply reaches_put. now apply Hsc.
  - now apply responds_put.
  - exact Hcr.
  - exact Hst.
Qed.

(* non-vacuity of the history statement: two servers and a client joined through the first node, a lookup *)
Example strongly_connected_nonvacuous :
  let evs := [EJoin true [0]; EJoin true [0]; EJoin false [1]; ELookup 2 true] in
  hist_ok (join [] true []) evs /\
  strongly_connected (fold_left nstep evs (join [] true [])) /\
  responds (fold_left nstep evs (join [] true [])) 2 = true.
Proof.
  assert (H: hist_ok (join [] true []) [EJoin true [0]; EJoin true [0]; EJoin false [1]; ELookup 2 true]).
  { cbn [hist_ok]. repeat split.
    - intros x [<-|[]]. vm_compute. lia.
    - right. exists 0. split; [now left|]. split; [vm_compute; reflexivity|now left].
    - intros x [<-|[]]. vm_compute. lia.
    - right. exists 0. split; [now left|]. split; [vm_compute; reflexivity|now left].
    - intros x [<-|[]]. vm_compute. lia.
    - right. exists 1. split; [now left|]. split; [vm_compute; reflexivity|]. right. vm_compute. reflexivity. }
  cbv zeta. split; [exact H|]. split; [|vm_compute; reflexivity].
  apply hub_strongly_connected; [exact (hub_history _ _ hub_start H)|].
  intros a Ha. assert (L: length (fold_left nstep [EJoin true [0]; EJoin true [0]; EJoin false [1]; ELookup 2 true] (join [] true [])) = 4) by (vm_compute; reflexivity).
  rewrite L in Ha. destruct a as [|[|[|[|a]]]]; try lia; vm_compute; discriminate.
Qed.
