(* ModesProofs.v — lemmas behind properties/C18.v *)
From Coq Require Import Lia.
From MLV Require Import model.Bytes model.Modes.
Open Scope N_scope.

Lemma maddr_eqb_refl a : maddr_eqb a a = true.
Proof. unfold maddr_eqb. now rewrite !N.eqb_refl. Qed.

(* client mode: never answers, never inserts requesters, marks its requests read-only *)
Theorem client_rules m ro f b s : m_server m = false ->
  answers_requests m = false /\ outgoing_ro m = true /\ adds_requester m ro f b s = (false, false).
Proof. intros H. unfold answers_requests, outgoing_ro, adds_requester. rewrite H. repeat split. Qed.

Theorem ro_requester_never_added m f b s : adds_requester m true f b s = (false, false).
Proof. unfold adds_requester. destruct (m_server m); reflexivity. Qed.

(* the adaptive switch: a new vote triggers a self ping to the voted address; when that ping comes back
   from that address the firewalled flag is cleared; the next refresh switches to server mode *)
Theorem adaptive_switch a :
  let m0 := mode0 false in
  let '(m1, p1) := mstep m0 (MLookupDone (Some a)) in
  let '(m2, _) := mstep m1 (MPingFrom a) in
  let '(m3, _) := mstep m2 MRefresh in
  p1 = Some a /\ m_firewalled m1 = true /\ m_firewalled m2 = false /\ m_server m2 = false /\ m_server m3 = true.
Proof. cbn. rewrite maddr_eqb_refl. cbn. repeat split. Qed.

(* without a ping from the voted address the node stays firewalled and stays a client, whatever else happens *)
Definition no_ping_from_public (m : mode) (e : mevent) : bool :=
  match e, m_public m with MPingFrom f, Some a => negb (maddr_eqb f a) | _, _ => true end.

Fixpoint nat_run (m : mode) (evs : list mevent) : bool :=
  match evs with
  | [] => true
  | e :: r => no_ping_from_public m e && nat_run (fst (mstep m e)) r
  end.

Theorem nat_stays_client evs : forall m,
  m_server m = false -> m_firewalled m = true -> nat_run m evs = true ->
  m_server (fst (mrun m evs)) = false /\ m_firewalled (fst (mrun m evs)) = true.
Proof.
  induction evs as [|e r IH]; intros m Hs Hf Hn; [now split|].
  cbn [nat_run] in Hn. apply andb_true_iff in Hn as [Hp Hr]. cbn [mrun].
  destruct (mstep m e) as [m1 p] eqn:E. cbn [fst] in Hr.
  assert (H1: m_server m1 = false /\ m_firewalled m1 = true).
  { destruct e as [[a|]|f|]; cbn [mstep] in E.
    - destruct (omaddr_eqb (m_public m) (Some a)); injection E as <- _; cbn; auto.
    - injection E as <- _. auto.
    - unfold no_ping_from_public in Hp. destruct (m_public m) as [a|]; [|injection E as <- _; auto].
      destruct (maddr_eqb f a); [discriminate|]. injection E as <- _. auto.
    - rewrite Hs, Hf in E. cbn in E. injection E as <- _. auto. }
  destruct H1 as [S1 F1]. specialize (IH m1 S1 F1 Hr). destruct (mrun m1 r) as [m2 ps]. exact IH.
Qed.

(* a node configured as a server stays one *)
Theorem server_stays_server evs : forall m, m_server m = true -> m_server (fst (mrun m evs)) = true.
Proof.
  induction evs as [|e r IH]; intros m H; [exact H|]. cbn [mrun]. destruct (mstep m e) as [m1 p] eqn:E.
  assert (m_server m1 = true).
  { destruct e as [[a|]|f|]; cbn [mstep] in E.
    - destruct (omaddr_eqb (m_public m) (Some a)); injection E as <- _; cbn; auto.
    - injection E as <- _. auto.
    - destruct (m_public m) as [a|]; [destruct (maddr_eqb f a)|]; injection E as <- _; cbn; auto.
    - rewrite H in E. cbn in E. injection E as <- _. auto. }
  specialize (IH m1 H0). destruct (mrun m1 r). exact IH.
Qed.

(* ---- several lookups ending together ---- *)
Lemma lookup_done_public m v :
  let '(m1, p) := mstep m (MLookupDone v) in
  match p with Some a => m_public m1 = Some a /\ m_firewalled m1 = true | None => m1 = m end.
Proof.
  destruct v as [a|]; cbn [mstep]; [|reflexivity].
  destruct (omaddr_eqb (m_public m) (Some a)); cbn; auto.
Qed.

(* whichever lookups end together and in whatever order they are gone through: the address that is probed is the
   address the node holds afterwards, held as unconfirmed (firewalled) until the probe comes back *)
Theorem probed_address_is_the_adopted_one votes : forall m,
  let '(m', p) := last_change m votes in
  match p with Some a => m_public m' = Some a /\ m_firewalled m' = true | None => m' = m end.
Proof.
  induction votes as [|v r IH]; intros m; cbn [last_change]; [reflexivity|].
  pose proof (lookup_done_public m v) as H1. destruct (mstep m (MLookupDone v)) as [m1 p1].
  specialize (IH m1). destruct (last_change m1 r) as [m2 p2].
  destruct p2 as [a|]; [exact IH|]. subst m2. exact H1.
Qed.
