(* KrpcProofs.v — lemmas behind properties/C10.v and C05.v *)
From Coq Require Import Lia.
From MLV Require Import model.Bytes model.Id model.Server model.Bencode model.Krpc model.Check10
  proofs.Sweep proofs.IdProofs proofs.ClosestProofs proofs.RTableProofs proofs.TokenProofs.
Open Scope N_scope.

(* ---------- compact formats ---------- *)
Lemma N_to_be_2 x : N_to_be 2 x = [x / 256 mod 256; x mod 256].
Proof. reflexivity. Qed.

Theorem sockaddr_roundtrip ip port : ip < 2 ^ 32 -> port < 65536 ->
  length (sockaddr_bytes (ip, port)) = 6%nat /\ dec_sockaddr (sockaddr_bytes (ip, port)) = Some (ip, port).
Proof.
  intros Hi Hp. unfold sockaddr_bytes, dec_sockaddr. cbn [fst snd]. rewrite N_to_be_4, N_to_be_2.
  split; [reflexivity|]. cbn [app length Nat.eqb firstn skipn].
  unfold be_to_N. cbn [fold_left]. change (2 ^ 32) with 4294967296 in Hi.
  f_equal. f_equal; divlia.
Qed.

Theorem node_roundtrip i ip port : length i = 20%nat -> ip < 2 ^ 32 -> port < 65536 ->
  length (node_bytes (i, ip, port)) = 26%nat.
Proof. intros L _ _. unfold node_bytes, sockaddr_bytes. cbn [fst snd]. rewrite !app_length, L. reflexivity. Qed.

Lemma firstn_app_exact {A} (a b : list A) n : length a = n -> firstn n (a ++ b) = a.
Proof. intros <-. rewrite firstn_app, Nat.sub_diag, firstn_all. cbn. now rewrite app_nil_r. Qed.
Lemma skipn_app_exact {A} (a b : list A) n : length a = n -> skipn n (a ++ b) = b.
Proof. intros <-. rewrite skipn_app, Nat.sub_diag, skipn_all. reflexivity. Qed.

Lemma be8_roundtrip t : t < 18446744073709551616 -> be_to_N (N_to_be 8 t) = t.
Proof. intros H. unfold be_to_N. cbn [N_to_be app fold_left]. divlia. Qed.

Theorem speer_roundtrip k t sg : length k = 32%nat -> length sg = 64%nat -> t < 2 ^ 64 ->
  length (speer_bytes (k, t, sg)) = 104%nat /\ dec_speer (speer_bytes (k, t, sg)) = Some (k, t, sg).
Proof.
  intros Lk Ls Ht. unfold speer_bytes, dec_speer.
  assert (L8: length (N_to_be 8 t) = 8%nat) by reflexivity.
  assert (L: length (k ++ N_to_be 8 t ++ sg) = 104%nat) by (rewrite !app_length, Lk, Ls, L8; reflexivity).
  split; [exact L|]. rewrite L. cbn [Nat.eqb].
  rewrite (firstn_app_exact k _ 32 Lk), (skipn_app_exact k _ 32 Lk), (firstn_app_exact (N_to_be 8 t) sg 8 L8).
  replace (skipn 40 (k ++ N_to_be 8 t ++ sg)) with sg.
  - now rewrite be8_roundtrip.
  - rewrite app_assoc. symmetry. apply skipn_app_exact. rewrite app_length, Lk, L8. reflexivity.
Qed.

(* timestamps travel as i64 and come back unchanged over the full u64 range *)
Theorem u64_timestamp_wrap t : t < 2 ^ 64 -> i64_to_u64 (u64_to_i64 t) = t.
Proof.
  intros H. change (2 ^ 64) with 18446744073709551616 in H. unfold i64_to_u64, u64_to_i64.
  destruct (N.ltb_spec t 9223372036854775808).
  - destruct (Z.ltb_spec (Z.of_N t) 0); lia.
  - destruct (Z.ltb_spec (Z.of_N t - 18446744073709551616) 0); lia.
Qed.

Theorem i64_range_of_u64 t : t < 2 ^ 64 -> (-9223372036854775808 <= u64_to_i64 t <= 9223372036854775807)%Z.
Proof.
  intros H. change (2 ^ 64) with 18446744073709551616 in H. unfold u64_to_i64.
  destruct (N.ltb_spec t 9223372036854775808); lia.
Qed.

(* transaction ids: the encoder writes 4 bytes; 2- and 4-byte ids are read big-endian *)
Theorem tid_roundtrip tid : tid < 2 ^ 32 -> length (N_to_be 4 tid) = 4%nat /\ be_to_N (N_to_be 4 tid) = tid.
Proof.
  intros H. split; [reflexivity|]. rewrite N_to_be_4. unfold be_to_N. cbn [fold_left].
  change (2 ^ 32) with 4294967296 in H. divlia.
Qed.

(* ---------- the decoder never panics (model, after the F2 repair) ---------- *)
Lemma of_dict_never_panics d : of_dict d <> DPanic.
Proof.
  unfold of_dict. destruct (stream_cut d) as [d'|]; [|discriminate].
  destruct (negb (top_keys_ok d')); [discriminate|].
  repeat match goal with
         | |- context [match ?x with _ => _ end] => destruct x; try discriminate
         | |- context [if ?x then _ else _] => destruct x; try discriminate
         end.
Qed.

Theorem of_bytes_never_panics b : of_bytes b <> DPanic.
Proof.
  unfold of_bytes. destruct (length b <? 15)%nat; [discriminate|].
  destruct b as [|c r]; [discriminate|].
  destruct (N.eq_dec c 100) as [->|Hc].
  - destruct (ben_parse (100 :: r)) as [[v rest]|]; [|discriminate].
    destruct v; try discriminate. apply of_dict_never_panics.
  - destruct c as [|p]; [discriminate|].
    repeat (destruct p as [p|p|]; try discriminate). exfalso. now apply Hc.
Qed.

(* ---------- canonical dictionaries: every dictionary the encoder emits has strictly ascending keys ---------- *)
Definition dict_sorted (v : ben) : bool :=
  match v with
  | BDict d => keys_ascending d && forallb (fun kv => match snd kv with BDict d' => keys_ascending d' | _ => true end) d
  | _ => false
  end.

Ltac fin := vm_compute; reflexivity.

Lemma req_sorted tid ver ip ro rid r :
  dict_sorted (to_ben {| m_tid := tid; m_version := ver; m_ip := ip; m_mt := MRequest rid r; m_ro := ro |}) = true.
Proof.
  destruct ver as [ver|], ip as [ip|], ro;
    (destruct r as [|t|ih|ih|t sq sl|tok p];
     [fin|fin|fin|fin|destruct sq; fin|
      destruct p as [ih port implied|ih t k sg|tg v|tg v k sq sg salt cas];
      [destruct implied; fin|fin|fin|destruct salt, cas; fin]]).
Qed.

Lemma resp_sorted tid ver ip ro r :
  dict_sorted (to_ben {| m_tid := tid; m_version := ver; m_ip := ip; m_mt := MResponse r; m_ro := ro |}) = true.
Proof.
  destruct ver as [ver|], ip as [ip|], ro;
    (destruct r as [i|i ns|i tok vals ns|i tok ps ns|i tok ns v|i tok ns v k sq sg|i tok ns|i tok ns sq];
     [fin|fin|destruct ns; fin|destruct ns; fin|destruct ns; fin|destruct ns; fin|destruct ns; fin|destruct ns; fin]).
Qed.

Lemma err_sorted tid ver ip ro c d :
  dict_sorted (to_ben {| m_tid := tid; m_version := ver; m_ip := ip; m_mt := MError c d; m_ro := ro |}) = true.
Proof. destruct ver as [ver|], ip as [ip|], ro; fin. Qed.

Theorem to_ben_keys_sorted m : dict_sorted (to_ben m) = true.
Proof.
  destruct m as [tid ver ip mt ro]. destruct mt as [rid r|r|code descr];
    [apply req_sorted|apply resp_sorted|apply err_sorted].
Qed.

(* the key sets are the BEP5 / BEP43 / BEP44 / signed-peers names: worked instances *)
Example key_names_examples :
  let keys v := match v with BDict d => map (fun kv => key_bytes (fst kv)) d | _ => [] end in
  let inner v name := match v with BDict d => match get_field d name with FOne x => keys x | _ => [] end | _ => [] end in
  let m mt := {| m_tid := 1; m_version := None; m_ip := None; m_mt := mt; m_ro := false |} in
  keys (to_ben (m (MRequest [] KPing))) = [k_a; k_q; k_ro; k_t; k_y]
  /\ inner (to_ben (m (MRequest [] (KPut [] (KPutMut [] [] [] 0 [] (Some []) (Some 0%Z)))))) k_a
     = [k_cas; k_id; k_k; k_salt; k_seq; k_sig; k_target; k_token; k_v]
  /\ inner (to_ben (m (MRequest [] (KPut [] (KAnnounce [] 1 (Some true)))))) k_a = [k_id; k_implied; k_info_hash; k_port; k_token]
  /\ inner (to_ben (m (MResponse (KRGetMut [] [] (Some []) [] [] 0 [])))) k_r = [k_id; k_k; k_nodes; k_seq; k_sig; k_token; k_v]
  /\ inner (to_ben (m (MResponse (KRGetPeers [] [] [] None)))) k_r = [k_id; k_token; k_values].
Proof. vm_compute. repeat split. Qed.
