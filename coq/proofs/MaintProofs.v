(* MaintProofs.v — lemmas behind properties/C14.v *)
From Coq Require Import Lia Sorted.
From MLV Require Import gen.Params model.Bytes model.Crc32c model.Id model.Node model.BSearch model.Closest model.RTable model.Maint
  proofs.RTableProofs.
Open Scope N_scope.

(* ---- rt_remove, membership ---- *)
Lemma remove_keeps_other t i m : Inv t -> In m (rt_values t) -> nid m <> i -> In m (rt_values (rt_remove t i)).
Proof.
  intros I Hm Hne. unfold rt_remove. set (d := distance (rid t) i).
  destruct (bk_get d (rbuckets t)) as [b|] eqn:G; [|exact Hm].
  assert (Eb: bucket_of t d = b) by (unfold bucket_of; now rewrite G).
  set (t' := {| rid := rid t; rbuckets := bk_set d (bucket_remove b i) (rbuckets t) |}).
  assert (S': StronglySorted N.lt (keys (rbuckets t'))) by (unfold t'; cbn [rbuckets]; apply bk_set_sorted, (inv_keys t I)).
  apply (in_values_bucket t m (inv_keys t I)) in Hm. destruct Hm as (dm & Hm).
  apply (in_values_bucket t' m S'). exists dm. unfold t'. rewrite bucket_of_set.
  destruct (N.eqb_spec dm d) as [->|]; [|exact Hm].
  rewrite Eb in Hm. unfold bucket_remove. apply filter_In. split; [exact Hm|].
  apply negb_true_iff. destruct (bytes_eqb (nid m) i) eqn:E; [|reflexivity]. apply bytes_eqb_iff in E. contradiction.
Qed.

Lemma remove_subset t i m : Inv t -> In m (rt_values (rt_remove t i)) -> In m (rt_values t).
Proof.
  intros I. unfold rt_remove. set (d := distance (rid t) i).
  destruct (bk_get d (rbuckets t)) as [b|] eqn:G; [|auto].
  assert (Eb: bucket_of t d = b) by (unfold bucket_of; now rewrite G).
  set (t' := {| rid := rid t; rbuckets := bk_set d (bucket_remove b i) (rbuckets t) |}).
  assert (S': StronglySorted N.lt (keys (rbuckets t'))) by (unfold t'; cbn [rbuckets]; apply bk_set_sorted, (inv_keys t I)).
  intros Hm. apply (in_values_bucket t' m S') in Hm. destruct Hm as (dm & Hm).
  apply (in_values_bucket t m (inv_keys t I)). exists dm. revert Hm. unfold t'. rewrite bucket_of_set.
  destruct (N.eqb_spec dm d) as [->|]; [|auto]. rewrite Eb. unfold bucket_remove. apply in_filter_sub.
Qed.

Lemma remove_gone t i m : Inv t -> In m (rt_values (rt_remove t i)) -> nid m <> i.
Proof.
  intros I. unfold rt_remove. set (d := distance (rid t) i).
  destruct (bk_get d (rbuckets t)) as [b|] eqn:G.
  - assert (Eb: bucket_of t d = b) by (unfold bucket_of; now rewrite G).
    set (t' := {| rid := rid t; rbuckets := bk_set d (bucket_remove b i) (rbuckets t) |}).
    assert (S': StronglySorted N.lt (keys (rbuckets t'))) by (unfold t'; cbn [rbuckets]; apply bk_set_sorted, (inv_keys t I)).
    intros Hm Heq. apply (in_values_bucket t' m S') in Hm. destruct Hm as (dm & Hm).
    revert Hm. unfold t'. rewrite bucket_of_set. destruct (N.eqb_spec dm d) as [->|Hd].
    + unfold bucket_remove. intros Hm. apply filter_In in Hm as [_ Hm]. apply negb_true_iff in Hm.
      assert (bytes_eqb (nid m) i = true) by now apply bytes_eqb_iff. congruence.
    + intros Hm. destruct (inv_place t I _ _ Hm) as (Hd' & _). subst i. unfold d in Hd. congruence.
  - intros Hm Heq. apply (in_values_bucket t m (inv_keys t I)) in Hm. destruct Hm as (dm & Hm).
    destruct (inv_place t I _ _ Hm) as (Hd' & _). subst i. fold d in Hd'. subst dm.
    unfold bucket_of in Hm. rewrite G in Hm. destruct Hm.
Qed.

(* ---- the ping round ---- *)
Lemma fold_remove_inv l : forall t, Inv t -> Inv (fold_left (fun acc n => rt_remove acc (nid n)) l t).
Proof. induction l as [|x l IH]; intros t I; [exact I|]. cbn [fold_left]. apply IH. now apply rt_remove_inv. Qed.

Lemma fold_remove_keeps l : forall t m, Inv t -> In m (rt_values t) -> (forall x, In x l -> nid x <> nid m) ->
  In m (rt_values (fold_left (fun acc n => rt_remove acc (nid n)) l t)).
Proof.
  induction l as [|x l IH]; intros t m I Hm Hne; [exact Hm|]. cbn [fold_left].
  apply IH; [now apply rt_remove_inv| |intros y Hy; apply Hne; now right].
  apply remove_keeps_other; [assumption|assumption|]. intros E. apply (Hne x); [now left|now symmetry].
Qed.

Lemma fold_remove_subset l : forall t m, Inv t -> In m (rt_values (fold_left (fun acc n => rt_remove acc (nid n)) l t)) -> In m (rt_values t).
Proof.
  induction l as [|x l IH]; intros t m I Hm; [exact Hm|]. cbn [fold_left] in Hm.
  apply IH in Hm; [|now apply rt_remove_inv]. now apply remove_subset in Hm.
Qed.

Lemma fold_remove_gone l : forall t s m, Inv t -> In s l ->
  In m (rt_values (fold_left (fun acc n => rt_remove acc (nid n)) l t)) -> nid m <> nid s.
Proof.
  induction l as [|x l IH]; intros t s m I Hs Hm; [destruct Hs|]. cbn [fold_left] in Hm. destruct Hs as [->|Hs].
  - apply fold_remove_subset in Hm; [|now apply rt_remove_inv]. now apply remove_gone in Hm.
  - eapply IH; [apply rt_remove_inv; exact I|exact Hs|exact Hm].
Qed.

Theorem ping_round_inv now t : Inv t -> Inv (fst (ping_round now t)).
Proof. intros I. unfold ping_round. cbn [fst]. now apply fold_remove_inv. Qed.

(* a node heard from within the last 15 minutes survives the round *)
Theorem ping_round_keeps_fresh now t m : Inv t -> In m (rt_values t) -> is_stale now m = false ->
  In m (rt_values (fst (ping_round now t))).
Proof.
  intros I Hm Hf. unfold ping_round. cbn [fst]. apply fold_remove_keeps; [assumption|assumption|].
  intros x Hx E. apply filter_In in Hx as [Hx Hs]. rewrite (rt_nodes_values t I) in Hx.
  assert (x = m).
  { pose proof (rt_values_nodup t I) as ND. clear - ND Hx Hm E.
    induction (rt_values t) as [|y l IH]; [destruct Hx|]. cbn in ND. inversion ND as [|? ? Hn ND']; subst.
    destruct Hx as [->|Hx], Hm as [->|Hm]; auto.
    - exfalso. apply Hn. rewrite E. now apply in_map.
    - exfalso. apply Hn. rewrite <- E. now apply in_map. }
  subst x. congruence.
Qed.

(* a node not heard from for more than 15 minutes is gone after the round (under any id entry) *)
Theorem ping_round_drops_stale now t s : Inv t -> In s (rt_values t) -> is_stale now s = true ->
  forall m, In m (rt_values (fst (ping_round now t))) -> nid m <> nid s.
Proof.
  intros I Hs St m Hm. unfold ping_round in Hm. cbn [fst] in Hm.
  eapply fold_remove_gone; [exact I| |exact Hm]. apply filter_In. split; [|exact St].
  now rewrite (rt_nodes_values t I).
Qed.

(* nothing appears in a round *)
Theorem ping_round_subset now t m : Inv t -> In m (rt_values (fst (ping_round now t))) -> In m (rt_values t).
Proof. intros I. unfold ping_round. cbn [fst]. now apply fold_remove_subset. Qed.

(* who is pinged: exactly the non-stale nodes not heard from for more than 10 seconds *)
Theorem ping_round_pings now t a : Inv t ->
  In a (snd (ping_round now t)) <->
  exists n, In n (rt_values t) /\ a = (nip n, nport n) /\ is_stale now n = false /\ should_ping now n = true.
Proof.
  intros I. unfold ping_round. cbn [snd]. rewrite in_map_iff. split.
  - intros (n & <- & Hn). apply filter_In in Hn as [Hn Hc]. apply andb_true_iff in Hc as [H1 H2].
    apply negb_true_iff in H1. rewrite (rt_nodes_values t I) in Hn. eauto.
  - intros (n & Hn & -> & H1 & H2). exists n. split; [reflexivity|]. apply filter_In.
    rewrite (rt_nodes_values t I). split; [assumption|]. now rewrite H1, H2.
Qed.

(* ---- one loop iteration ---- *)
Definition MInv (m : maint) : Prop := Inv (mt_rt m) /\ Inv (mt_srt m).

Lemma maintain_inv m now : MInv m -> MInv (fst (mt_maintain m now)).
Proof.
  unfold MInv, mt_maintain. intros [I S]. cbn [fst mt_rt mt_srt].
  destruct (PING_INTERVAL <? now - mt_ping m)%Z; split; auto using ping_round_inv.
Qed.

Lemma add_inv now t i ip port : Inv t -> id_wf i = true -> Inv (fst (rt_add now t (mk_node i ip port None now))).
Proof.
  intros I Hw. destruct (rt_add now t (mk_node i ip port None now)) as [t' r] eqn:E. cbn [fst].
  eapply rt_add_inv; [exact I| |exact E]. exact Hw.
Qed.

Definition input_wf (inp : tick_in) : Prop :=
  match inp with
  | INone => True
  | IResp (i, _, _) _ | IReq (i, _, _) _ _ => id_wf i = true
  end.

Definition input_id (inp : tick_in) : option id :=
  match inp with
  | INone => None
  | IResp (i, _, _) _ | IReq (i, _, _) _ _ => Some i
  end.

Theorem tick_inv m now inp : MInv m -> input_wf inp -> MInv (fst (mt_tick m now inp)).
Proof.
  intros I Hw. unfold mt_tick. cbn [fst]. pose proof (maintain_inv m now I) as [I1 S1].
  destruct inp as [|[[i ip] port] v|[[i ip] port] v be]; cbn in Hw; [split; assumption| |].
  - unfold MInv, mt_response. cbn [mt_rt mt_srt]. split; [now apply add_inv|]. destruct v; [now apply add_inv|assumption].
  - unfold MInv, mt_request. cbn [mt_rt mt_srt]. split.
    + destruct be; [now apply add_inv|assumption].
    + destruct v; [now apply add_inv|assumption].
Qed.

(* a node heard from within the last 15 minutes is still in the table after a whole iteration, whoever
   else answers or asks in it (capacity and IP limits can refuse newcomers, they never push out a fresh node) *)
Theorem tick_keeps_fresh m now inp n : MInv m -> input_wf inp -> input_id inp <> Some (nid n) ->
  In n (rt_values (mt_rt m)) -> is_stale now n = false ->
  In n (rt_values (mt_rt (fst (mt_tick m now inp)))).
Proof.
  intros I Hw Hne Hn Hf. unfold mt_tick. cbn [fst].
  pose proof (maintain_inv m now I) as [I1 _].
  assert (H1: In n (rt_values (mt_rt (fst (mt_maintain m now))))).
  { unfold mt_maintain. cbn [fst mt_rt]. destruct (PING_INTERVAL <? now - mt_ping m)%Z; [|exact Hn].
    apply ping_round_keeps_fresh; [apply I|exact Hn|exact Hf]. }
  destruct inp as [|[[i ip] port] v|[[i ip] port] v be]; cbn in Hw, Hne; [exact H1| |].
  - unfold mt_response. cbn [mt_rt]. apply rt_add_never_evicts_fresh; [exact I1|exact H1|cbn; congruence|exact Hf].
  - unfold mt_request. cbn [mt_rt]. destruct be; [|exact H1].
    apply rt_add_never_evicts_fresh; [exact I1|exact H1|cbn; congruence|exact Hf].
Qed.

(* the node that answers is in the table afterwards with last_seen = now, unless the table refuses it
   (self id, IP rule against another node, bucket full of fresh nodes) — in particular a known node
   answering from its known IP is always refreshed *)
Theorem response_outcome m now i ip port v :
  let n := mk_node i ip port None now in
  snd (rt_add now (mt_rt m) n) = true -> MInv m -> id_wf i = true ->
  In n (rt_values (mt_rt (mt_response m now (i, ip, port) v))).
Proof.
  intros n Hr [I _] Hw. unfold mt_response. cbn [mt_rt]. fold n.
  unfold rt_add in *. destruct (distance (rid (mt_rt m)) (nid n) =? 0); [discriminate|].
  destruct (existsb _ (rbuckets (mt_rt m))); [discriminate|].
  set (d := distance (rid (mt_rt m)) (nid n)) in *.
  destruct (bucket_add now match bk_get d (rbuckets (mt_rt m)) with Some b => b | None => [] end n) as [b' r] eqn:BA.
  cbn [snd fst] in *. subst r.
  set (t' := {| rid := rid (mt_rt m); rbuckets := bk_set d b' (rbuckets (mt_rt m)) |}).
  assert (S': StronglySorted N.lt (keys (rbuckets t'))) by (unfold t'; cbn [rbuckets]; apply bk_set_sorted, (inv_keys _ I)).
  apply (in_values_bucket t' n S'). exists d. unfold t'. rewrite bucket_of_set, N.eqb_refl.
  clear - BA. unfold bucket_add in BA.
  destruct (find_index _ _ 0) as [idx|].
  - destruct (nth_error _ idx) as [e|]; [|inversion BA].
    destruct (nsec n || _); inversion BA; subst. apply in_or_app. right. now left.
  - destruct (length _ <? K)%nat; [inversion BA; subst; apply in_or_app; right; now left|].
    destruct (match bk_get d (rbuckets (mt_rt m)) with Some b => b | None => [] end) as [|h tl]; [inversion BA|].
    destruct (is_stale now h); inversion BA; subst. apply in_or_app. right. now left.
Qed.

(* the schedule: a round runs in the first iteration more than 5 minutes after the previous one *)
Theorem round_due m now : (PING_INTERVAL < now - mt_ping m)%Z ->
  o_round (snd (mt_maintain m now)) = true /\ mt_ping (fst (mt_maintain m now)) = now.
Proof.
  intros H. unfold mt_maintain. assert (E: (PING_INTERVAL <? now - mt_ping m)%Z = true) by now apply Z.ltb_lt.
  cbn [fst snd o_round mt_ping]. now rewrite E.
Qed.

Theorem round_not_due m now : (now - mt_ping m <= PING_INTERVAL)%Z ->
  o_round (snd (mt_maintain m now)) = false /\ mt_rt (fst (mt_maintain m now)) = mt_rt m /\ mt_ping (fst (mt_maintain m now)) = mt_ping m.
Proof.
  intros H. unfold mt_maintain. assert (E: (PING_INTERVAL <? now - mt_ping m)%Z = false) by now apply Z.ltb_ge.
  cbn [fst snd o_round mt_ping mt_rt]. now rewrite E.
Qed.

(* silent for more than 15 minutes at an iteration in which a round is due: gone after that iteration,
   unless it answers in this very iteration *)
Theorem tick_drops_stale m now s : MInv m -> In s (rt_values (mt_rt m)) -> is_stale now s = true ->
  (PING_INTERVAL < now - mt_ping m)%Z ->
  forall x, In x (rt_values (mt_rt (fst (mt_tick m now INone)))) -> nid x <> nid s.
Proof.
  intros [I _] Hs St Due x. unfold mt_tick, mt_maintain. cbn [fst mt_rt].
  assert (E: (PING_INTERVAL <? now - mt_ping m)%Z = true) by now apply Z.ltb_lt. rewrite E.
  now apply ping_round_drops_stale.
Qed.

(* an empty table or a due refresh re-bootstraps in that very iteration *)
Theorem empty_table_populates m now : rt_is_empty (mt_rt m) = true -> o_populate (snd (mt_maintain m now)) = true.
Proof. intros H. unfold mt_maintain. cbn [snd o_populate]. now rewrite H. Qed.

Theorem refresh_due m now : (REFRESH_INTERVAL < now - mt_refresh m)%Z ->
  o_populate (snd (mt_maintain m now)) = true /\ mt_refresh (fst (mt_maintain m now)) = now.
Proof.
  intros H. unfold mt_maintain. assert (E: (REFRESH_INTERVAL <? now - mt_refresh m)%Z = true) by now apply Z.ltb_lt.
  cbn [fst snd o_populate mt_refresh]. rewrite E. rewrite orb_true_r. auto.
Qed.

(* requests never touch the main table of a node that has bootstrap nodes (only the signed-peers table) *)
Theorem request_leaves_main_table m now who v : mt_rt (mt_request m now who v false) = mt_rt m.
Proof. destruct who as [[i ip] port]. reflexivity. Qed.

(* ---- the refresh asks what the node knew when the iteration began ---- *)
Theorem refresh_asks_what_it_knew m now n :
  refresh_is_due m now = true -> In n (rt_values (mt_rt m)) \/ In n (rt_values (mt_srt m)) ->
  In (nip n, nport n) (refresh_seeds m now).
Proof.
  intros Hd Hin. unfold refresh_seeds. rewrite Hd. apply in_map_iff. exists n. split; [reflexivity|].
  apply in_or_app. exact Hin.
Qed.

(* in particular the entries that the round of the same iteration is about to drop *)
Corollary refresh_asks_stale_entries_too m now n :
  refresh_is_due m now = true -> In n (rt_values (mt_rt m)) -> is_stale now n = true ->
  In (nip n, nport n) (refresh_seeds m now) /\ o_populate (snd (mt_maintain m now)) = true.
Proof.
  intros Hd Hin _. split; [apply refresh_asks_what_it_knew; auto|].
  unfold mt_maintain. cbn [snd o_populate]. unfold refresh_is_due in Hd. rewrite Hd. apply Bool.orb_true_r.
Qed.
