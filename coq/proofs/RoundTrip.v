(* RoundTrip.v — the KRPC round trip: decoding what the encoder emits gives back the message (up to `norm`),
   for every well-formed message. Built on BencodeProofs (the byte level) and the atom lemmas of KrpcProofs. *)
From Coq Require Import Lia Permutation.
From MLV Require Import model.Bytes model.Id model.Server model.Bencode model.Krpc proofs.BencodeProofs proofs.KrpcProofs.
Open Scope N_scope.

(* ---------- dictionaries are read by key, so the order of their entries does not matter ---------- *)
Definition has_key (name : bytes) (kv : ben * ben) : bool := ben_eqb_str (fst kv) name.

Lemma get_field_filter d name :
  get_field d name = match filter (has_key name) d with
                     | [] => FNone
                     | [kv] => FOne (snd kv)
                     | _ => FDup
                     end.
Proof.
  induction d as [|[k v] d IH]; [reflexivity|]. cbn [get_field filter]. unfold has_key at 1. cbn [fst].
  destruct (ben_eqb_str k name); [|exact IH]. rewrite IH.
  destruct (filter (has_key name) d) as [|x [|y l]]; reflexivity.
Qed.

Lemma filter_perm {A} (f : A -> bool) l l' : Permutation l l' -> Permutation (filter f l) (filter f l').
Proof.
  induction 1 as [|x l l' _ IH|x y l|l l' l'' _ IH1 _ IH2]; cbn [filter].
  - constructor.
  - destruct (f x); [now constructor|assumption].
  - destruct (f x), (f y); try apply perm_swap; try reflexivity.
  - now transitivity (filter f l').
Qed.

Lemma get_field_perm d d' name : Permutation d d' -> get_field d name = get_field d' name.
Proof.
  intros P. rewrite !get_field_filter. apply (filter_perm (has_key name)) in P.
  destruct (filter (has_key name) d) as [|x [|y l]].
  - apply Permutation_nil in P. now rewrite P.
  - apply Permutation_length_1_inv in P. now rewrite P.
  - pose proof (Permutation_length P) as L. destruct (filter (has_key name) d') as [|x' [|y' l']]; cbn in L; try discriminate. reflexivity.
Qed.

Lemma fields_dict_perm sc d d' : Permutation d d' -> fields_dict sc d = fields_dict sc d'.
Proof.
  intros P. induction sc as [|[name req] sc IH]; [reflexivity|]. cbn [fields_dict].
  now rewrite (get_field_perm d d' name P), IH.
Qed.

Lemma forallb_perm {A} (f : A -> bool) l l' : Permutation l l' -> forallb f l = forallb f l'.
Proof.
  induction 1 as [|x l l' _ IH|x y l|l l' l'' _ IH1 _ IH2]; cbn [forallb]; try congruence.
  destruct (f x), (f y); reflexivity.
Qed.

Lemma insert_kv_perm kv l : Permutation (insert_kv kv l) (kv :: l).
Proof.
  induction l as [|x l IH]; cbn [insert_kv]; [reflexivity|].
  destruct (bytes_cmp _ _); try reflexivity. rewrite IH. apply perm_swap.
Qed.

Lemma sort_kvs_perm l : Permutation (sort_kvs l) l.
Proof.
  induction l as [|x l IH]; [constructor|]. cbn [sort_kvs fold_right]. fold (sort_kvs l).
  rewrite insert_kv_perm. now constructor.
Qed.

(* a struct field list read from the dictionary the encoder builds = read from the unsorted entry list *)
Definition entries (l : list (bytes * ben)) : list (ben * ben) := map (fun kv => (BStr (fst kv), snd kv)) l.

Lemma fields_mkdict sc l : fields sc (mkdict l) = fields_dict sc (entries l).
Proof. unfold mkdict. cbn [fields]. apply fields_dict_perm, sort_kvs_perm. Qed.

(* ---------- the stream quirk does not concern the encoder's output: `v` and `ip` are byte strings ---------- *)
Definition no_list_v_ip (d : list (ben * ben)) : bool :=
  forallb (fun kv => match snd kv with
                     | BList _ => negb (ben_eqb_str (fst kv) k_v) && negb (ben_eqb_str (fst kv) k_ip)
                     | _ => true
                     end) d.

Lemma stream_cut_id d : no_list_v_ip d = true -> stream_cut d = Some d.
Proof.
  induction d as [|[k v] d IH]; [reflexivity|]. cbn [no_list_v_ip forallb snd fst]. intros H.
  apply andb_true_iff in H as [H1 H2]. cbn [stream_cut]. rewrite (IH H2).
  destruct v; try reflexivity. apply andb_true_iff in H1 as [Hv Hi]. apply negb_true_iff in Hv, Hi. now rewrite Hv, Hi.
Qed.

Lemma of_dict_perm d d' : Permutation d d' -> no_list_v_ip d = true -> of_dict d = of_dict d'.
Proof.
  intros P H. assert (H': no_list_v_ip d' = true) by (unfold no_list_v_ip in *; now rewrite <- (forallb_perm _ _ _ P)).
  unfold of_dict. rewrite (stream_cut_id d H), (stream_cut_id d' H').
  unfold top_keys_ok. rewrite (forallb_perm _ _ _ P).
  now rewrite !(get_field_perm d d' _ P).
Qed.

(* ---------- the flattened top level, for the three shapes the encoder produces ---------- *)
Definition top_entries (tb : bytes) (ver ipb : option bytes) (ro : bool) (rest : list (bytes * ben)) : list (bytes * ben) :=
  [(k_t, BStr tb)] ++ opt_kv k_v ver BStr ++ opt_kv k_ip ipb BStr ++ [(k_ro, BInt (if ro then 1 else 0)%Z)] ++ rest.

Definition finish (tb : bytes) (ver ipb : option bytes) (ro : bool) (mt : option kmt) : dres :=
  match mt with
  | Some mtv =>
      if negb ((length tb =? 2)%nat || (length tb =? 4)%nat) then DErr else
      match match ipb with Some b => option_map Some (dec_sockaddr b) | None => Some None end with
      | Some ip => DOk {| m_tid := be_to_N tb; m_version := ver; m_ip := ip; m_mt := mtv; m_ro := ro |}
      | None => DErr
      end
  | None => DErr
  end.

Definition len_ok (n : nat) (o : option bytes) : Prop := match o with Some b => length b = n | None => True end.

Lemma as_int_ok lo hi z : (lo <= z <= hi)%Z -> as_int lo hi (BInt z) = Some z.
Proof. intros [H1 H2]. unfold as_int. apply Z.leb_le in H1, H2. now rewrite H1, H2. Qed.

Lemma as_bytes_n_ok n x : length x = n -> as_bytes_n n (BStr x) = Some x.
Proof. intros H. unfold as_bytes_n. cbn [as_bytes]. now rewrite H, Nat.eqb_refl. Qed.

(* key-level facts are closed computations: the values stay abstract *)
Definition top_list (tbv verv ipv rov : ben) (hv hi : bool) (tail : list (bytes * ben)) : list (ben * ben) :=
  entries ([(k_t, tbv)] ++ (if hv then [(k_v, verv)] else []) ++ (if hi then [(k_ip, ipv)] else []) ++ [(k_ro, rov)] ++ tail).

Section TopKeys.
  Variables tbv verv ipv rov yv x1 x2 : ben.
  Lemma keys_common3 hv hi name : In name [k_q; k_r; k_e] -> forall rest,
    rest = [(k_y, yv); (k_q, x1); (k_a, x2)] \/ rest = [(k_y, yv); (name, x1)] ->
    let d := top_list tbv verv ipv rov hv hi rest in
    top_keys_ok d = true /\
    get_field d k_t = FOne tbv /\
    get_field d k_v = (if hv then FOne verv else FNone) /\
    get_field d k_ip = (if hi then FOne ipv else FNone) /\
    get_field d k_ro = FOne rov /\
    get_field d k_y = FOne yv.
  Proof.
    intros Hn rest [-> | ->]; destruct hv, hi.
    1-4: vm_compute; repeat split; reflexivity.
    all: cbn in Hn; destruct Hn as [<-|[<-|[<-|[]]]]; vm_compute; repeat split; reflexivity.
  Qed.
  Lemma keys_request hv hi :
    let d := top_list tbv verv ipv rov hv hi [(k_y, yv); (k_q, x1); (k_a, x2)] in
    get_field d k_q = FOne x1 /\ get_field d k_a = FOne x2.
  Proof. destruct hv, hi; vm_compute; split; reflexivity. Qed.
  Lemma keys_response hv hi :
    get_field (top_list tbv verv ipv rov hv hi [(k_y, yv); (k_r, x1)]) k_r = FOne x1.
  Proof. destruct hv, hi; vm_compute; reflexivity. Qed.
  Lemma keys_error hv hi :
    get_field (top_list tbv verv ipv rov hv hi [(k_y, yv); (k_e, x1)]) k_e = FOne x1.
  Proof. destruct hv, hi; vm_compute; reflexivity. Qed.
End TopKeys.

Lemma no_list_top (tb vb ib : bytes) (rz : Z) (yy : bytes) (hv hi : bool) (tail : list (bytes * ben)) :
  no_list_v_ip (entries tail) = true ->
  no_list_v_ip (top_list (BStr tb) (BStr vb) (BStr ib) (BInt rz) hv hi ((k_y, BStr yy) :: tail)) = true.
Proof.
  intros H. unfold no_list_v_ip, top_list, entries in *.
  destruct hv, hi; cbn [app map forallb fst snd andb]; exact H.
Qed.

Lemma top_list_of tb ver ipb ro rest :
  entries (top_entries tb ver ipb ro rest)
  = top_list (BStr tb) (BStr (match ver with Some b => b | None => [] end)) (BStr (match ipb with Some b => b | None => [] end))
             (BInt (if ro then 1 else 0)%Z)
             (match ver with Some _ => true | None => false end) (match ipb with Some _ => true | None => false end) rest.
Proof. unfold top_entries, top_list. destruct ver, ipb; reflexivity. Qed.

(* the proof script shared by the three shapes: after the key facts are rewritten, what remains is `finish` *)
Ltac finish_top Hv Hi ro :=
  cbn [negb]; cbv beta iota; cbn [as_bytes opt_dec];
  rewrite ?(as_bytes_n_ok 4 _ Hv), ?(as_bytes_n_ok 6 _ Hi),
          (as_int_ok (-2147483648) 2147483647 (if ro then 1 else 0)%Z) by (destruct ro; lia);
  cbv beta iota.

Lemma top_request tb ver ipb ro q a : len_ok 4 ver -> len_ok 6 ipb ->
  of_dict (entries (top_entries tb ver ipb ro [(k_y, BStr k_q); (k_q, BStr q); (k_a, a)]))
  = finish tb ver ipb ro (dec_request q a).
Proof.
  intros Hv Hi. rewrite top_list_of.
  set (vb := match ver with Some b => b | None => [] end). set (ib := match ipb with Some b => b | None => [] end).
  set (hv := match ver with Some _ => true | None => false end). set (hi := match ipb with Some _ => true | None => false end).
  set (rz := (if ro then 1 else 0)%Z).
  destruct (keys_common3 (BStr tb) (BStr vb) (BStr ib) (BInt rz) (BStr k_q) (BStr q) a hv hi k_q (or_introl eq_refl) _ (or_introl eq_refl))
    as (K0 & K1 & K2 & K3 & K4 & K5).
  destruct (keys_request (BStr tb) (BStr vb) (BStr ib) (BInt rz) (BStr k_q) (BStr q) a hv hi) as (K6 & K7).
  unfold of_dict. rewrite (stream_cut_id _ (no_list_top tb vb ib rz k_q hv hi [(k_q, BStr q); (k_a, a)] ltac:(destruct a; reflexivity))).
  rewrite K0, K1, K2, K3, K4, K5, K6, K7. clear K0 K1 K2 K3 K4 K5 K6 K7.
  subst hv hi vb ib rz. destruct ver as [v|], ipb as [i|]; cbn [len_ok] in Hv, Hi; finish_top Hv Hi ro;
    change (bytes_eqb k_q k_q) with true; cbv beta iota; unfold finish; destruct ro; reflexivity.
Qed.

Lemma top_response tb ver ipb ro r : len_ok 4 ver -> len_ok 6 ipb ->
  of_dict (entries (top_entries tb ver ipb ro [(k_y, BStr k_r); (k_r, r)]))
  = finish tb ver ipb ro (option_map MResponse (dec_response r)).
Proof.
  intros Hv Hi. rewrite top_list_of.
  set (vb := match ver with Some b => b | None => [] end). set (ib := match ipb with Some b => b | None => [] end).
  set (hv := match ver with Some _ => true | None => false end). set (hi := match ipb with Some _ => true | None => false end).
  set (rz := (if ro then 1 else 0)%Z).
  destruct (keys_common3 (BStr tb) (BStr vb) (BStr ib) (BInt rz) (BStr k_r) r r hv hi k_r (or_intror (or_introl eq_refl)) _ (or_intror eq_refl))
    as (K0 & K1 & K2 & K3 & K4 & K5).
  pose proof (keys_response (BStr tb) (BStr vb) (BStr ib) (BInt rz) (BStr k_r) r hv hi) as K6.
  unfold of_dict. rewrite (stream_cut_id _ (no_list_top tb vb ib rz k_r hv hi [(k_r, r)] ltac:(destruct r; reflexivity))).
  rewrite K0, K1, K2, K3, K4, K5. clear K0 K1 K2 K3 K4 K5.
  subst hv hi vb ib rz. destruct ver as [v|], ipb as [i|]; cbn [len_ok] in Hv, Hi; finish_top Hv Hi ro;
    change (bytes_eqb k_r k_q) with false; change (bytes_eqb k_r k_r) with true; cbv beta iota; rewrite K6;
    unfold finish; destruct ro; reflexivity.
Qed.

Lemma top_error tb ver ipb ro e : len_ok 4 ver -> len_ok 6 ipb ->
  of_dict (entries (top_entries tb ver ipb ro [(k_y, BStr k_e); (k_e, e)]))
  = finish tb ver ipb ro (dec_error e).
Proof.
  intros Hv Hi. rewrite top_list_of.
  set (vb := match ver with Some b => b | None => [] end). set (ib := match ipb with Some b => b | None => [] end).
  set (hv := match ver with Some _ => true | None => false end). set (hi := match ipb with Some _ => true | None => false end).
  set (rz := (if ro then 1 else 0)%Z).
  destruct (keys_common3 (BStr tb) (BStr vb) (BStr ib) (BInt rz) (BStr k_e) e e hv hi k_e (or_intror (or_intror (or_introl eq_refl))) _ (or_intror eq_refl))
    as (K0 & K1 & K2 & K3 & K4 & K5).
  pose proof (keys_error (BStr tb) (BStr vb) (BStr ib) (BInt rz) (BStr k_e) e hv hi) as K6.
  unfold of_dict. rewrite (stream_cut_id _ (no_list_top tb vb ib rz k_e hv hi [(k_e, e)] ltac:(destruct e; reflexivity))).
  rewrite K0, K1, K2, K3, K4, K5. clear K0 K1 K2 K3 K4 K5.
  subst hv hi vb ib rz. destruct ver as [v|], ipb as [i|]; cbn [len_ok] in Hv, Hi; finish_top Hv Hi ro;
    change (bytes_eqb k_e k_q) with false; change (bytes_eqb k_e k_r) with false; change (bytes_eqb k_e k_e) with true;
    cbv beta iota; rewrite K6; unfold finish; destruct ro; reflexivity.
Qed.

(* ---------- well-formed messages ---------- *)
Definition i64_ok (z : Z) : Prop := (-9223372036854775808 <= z <= 9223372036854775807)%Z.
Definition oi64_ok (o : option Z) : Prop := match o with Some z => i64_ok z | None => True end.
Definition addr_ok (a : caddr) : Prop := fst a < 2 ^ 32 /\ snd a < 65536.
Definition cnode_ok (n : cnode) : Prop := let '(i, ip, port) := n in length i = 20%nat /\ ip < 2 ^ 32 /\ port < 65536.
Definition speer_ok (p : speer) : Prop := let '(k, t, sg) := p in length k = 32%nat /\ length sg = 64%nat /\ t < 2 ^ 64.

Definition kput_ok (p : kput) : Prop :=
  match p with
  | KAnnounce ih port _ => length ih = 20%nat /\ port < 65536
  | KSigned ih t k sig => length ih = 20%nat /\ t < 2 ^ 64 /\ length k = 32%nat /\ length sig = 64%nat
  | KPutImm target _ => length target = 20%nat
  | KPutMut target _ k seq sig _ cas => length target = 20%nat /\ length k = 32%nat /\ length sig = 64%nat /\ i64_ok seq /\ oi64_ok cas
  end.
Definition kreq_ok (r : kreq) : Prop :=
  match r with
  | KPing => True
  | KFindNode t => length t = 20%nat
  | KGetPeers ih | KGetSigned ih => length ih = 20%nat
  | KGetValue t seq _ => length t = 20%nat /\ oi64_ok seq
  | KPut _ p => kput_ok p
  end.

(* ---------- requests ---------- *)
Lemma opt_kv_map {A} name (o : option A) (f : A -> ben) :
  opt_kv name o f = match option_map f o with Some x => [(name, x)] | None => [] end.
Proof. destruct o; reflexivity. Qed.

Section ReqFields.
  Variables i t p tk kk sg sq vv : ben.
  Lemma f_ping : fields_dict [(k_id, req_f)] (entries [(k_id, i)]) = Some [Some i].
  Proof. reflexivity. Qed.
  Lemma f_find : fields_dict [(k_id, req_f); (k_target, req_f)] (entries [(k_id, i); (k_target, t)]) = Some [Some i; Some t].
  Proof. vm_compute. reflexivity. Qed.
  Lemma f_peers : fields_dict [(k_id, req_f); (k_info_hash, req_f)] (entries [(k_id, i); (k_info_hash, t)]) = Some [Some i; Some t].
  Proof. vm_compute. reflexivity. Qed.
  Lemma f_get o : fields_dict [(k_id, req_f); (k_target, req_f); (k_seq, opt_f)]
                    (entries ([(k_id, i); (k_target, t)] ++ match o with Some x => [(k_seq, x)] | None => [] end)) = Some [Some i; Some t; o].
  Proof. destruct o; vm_compute; reflexivity. Qed.
  Lemma f_announce o : fields_dict [(k_id, req_f); (k_info_hash, req_f); (k_port, req_f); (k_token, req_f); (k_implied, opt_f)]
                    (entries ([(k_id, i); (k_info_hash, t); (k_port, p); (k_token, tk)] ++ match o with Some x => [(k_implied, x)] | None => [] end))
                    = Some [Some i; Some t; Some p; Some tk; o].
  Proof. destruct o; vm_compute; reflexivity. Qed.
  Lemma f_signed : fields_dict [(k_id, req_f); (k_info_hash, req_f); (k_token, req_f); (k_k, req_f); (k_sig, req_f); (k_t, req_f)]
                    (entries [(k_id, i); (k_info_hash, t); (k_token, tk); (k_k, kk); (k_sig, sg); (k_t, sq)])
                    = Some [Some i; Some t; Some tk; Some kk; Some sg; Some sq].
  Proof. vm_compute. reflexivity. Qed.
  Lemma f_put_imm : fields_dict [(k_id, req_f); (k_target, req_f); (k_token, req_f); (k_v, req_f); (k_k, opt_f); (k_sig, opt_f); (k_seq, opt_f); (k_cas, opt_f); (k_salt, opt_f)]
                    (entries [(k_id, i); (k_target, t); (k_token, tk); (k_v, vv)])
                    = Some [Some i; Some t; Some tk; Some vv; None; None; None; None; None].
  Proof. vm_compute. reflexivity. Qed.
  Lemma f_put_mut oc os : fields_dict [(k_id, req_f); (k_target, req_f); (k_token, req_f); (k_v, req_f); (k_k, opt_f); (k_sig, opt_f); (k_seq, opt_f); (k_cas, opt_f); (k_salt, opt_f)]
                    (entries ([(k_id, i); (k_target, t); (k_token, tk); (k_v, vv); (k_k, kk); (k_sig, sg); (k_seq, sq)]
                              ++ match oc with Some x => [(k_cas, x)] | None => [] end ++ match os with Some x => [(k_salt, x)] | None => [] end))
                    = Some [Some i; Some t; Some tk; Some vv; Some kk; Some sg; Some sq; oc; os].
  Proof. destruct oc, os; vm_compute; reflexivity. Qed.
End ReqFields.

Ltac eval_name_tests :=
  repeat match goal with |- context [bytes_eqb ?a ?b] =>
    let v := eval vm_compute in (bytes_eqb a b) in change (bytes_eqb a b) with v end;
  cbv beta iota; cbn [orb].

Theorem request_roundtrip rid r : length rid = 20%nat -> kreq_ok r ->
  dec_request (fst (req_ben rid r)) (snd (req_ben rid r)) = Some (MRequest rid (norm_req r)).
Proof.
  intros Hrid Hr. destruct r as [|t|ih|ih|t seq salt|token p]; cbn [kreq_ok] in Hr.
  - cbn [req_ben fst snd]. unfold dec_request. eval_name_tests. rewrite fields_mkdict, f_ping.
    cbn [req_dec]. now rewrite (as_bytes_n_ok 20 rid Hrid).
  - cbn [req_ben fst snd]. unfold dec_request. eval_name_tests. rewrite fields_mkdict, f_find.
    cbn [req_dec]. now rewrite (as_bytes_n_ok 20 rid Hrid), (as_bytes_n_ok 20 t Hr).
  - cbn [req_ben fst snd]. unfold dec_request. eval_name_tests. rewrite fields_mkdict, f_peers.
    cbn [req_dec]. now rewrite (as_bytes_n_ok 20 rid Hrid), (as_bytes_n_ok 20 ih Hr).
  - cbn [req_ben fst snd]. unfold dec_request. eval_name_tests. rewrite fields_mkdict, f_peers.
    cbn [req_dec]. now rewrite (as_bytes_n_ok 20 rid Hrid), (as_bytes_n_ok 20 ih Hr).
  - destruct Hr as [Ht Hs]. cbn [req_ben fst snd]. unfold dec_request. eval_name_tests.
    rewrite fields_mkdict, opt_kv_map, f_get. cbn [req_dec]. rewrite (as_bytes_n_ok 20 rid Hrid), (as_bytes_n_ok 20 t Ht).
    destruct seq as [z|]; cbn [option_map opt_dec oi64_ok] in *; [|reflexivity].
    unfold as_i64. now rewrite (as_int_ok _ _ z Hs).
  - destruct p as [ih port implied|ih t k sig|target v|target v k seq sig salt cas]; cbn [kput_ok] in Hr.
    + destruct Hr as [Hih Hp]. cbn [req_ben fst snd]. unfold dec_request. eval_name_tests.
      rewrite fields_mkdict, opt_kv_map, f_announce. cbn [req_dec].
      rewrite (as_bytes_n_ok 20 rid Hrid), (as_bytes_n_ok 20 ih Hih), (as_int_ok 0 65535 (Z.of_N port)) by lia.
      cbn [as_bytes]. rewrite N2Z.id.
      destruct implied as [[|]|]; cbn [option_map opt_dec]; rewrite ?as_int_ok by lia; reflexivity.
    + destruct Hr as (Hih & Ht & Hk & Hs). cbn [req_ben fst snd]. unfold dec_request. eval_name_tests.
      rewrite fields_mkdict, f_signed. cbn [req_dec as_bytes].
      rewrite (as_bytes_n_ok 20 rid Hrid), (as_bytes_n_ok 20 ih Hih), (as_bytes_n_ok 32 k Hk), (as_bytes_n_ok 64 sig Hs).
      unfold as_i64. rewrite (as_int_ok _ _ _ (i64_range_of_u64 t Ht)). now rewrite u64_timestamp_wrap.
    + cbn [req_ben fst snd]. unfold dec_request. eval_name_tests. rewrite fields_mkdict, f_put_imm.
      cbn [req_dec opt_dec as_bytes]. now rewrite (as_bytes_n_ok 20 rid Hrid), (as_bytes_n_ok 20 target Hr).
    + destruct Hr as (Ht & Hk & Hs & Hq & Hc). cbn [req_ben fst snd]. unfold dec_request. eval_name_tests.
      rewrite fields_mkdict, !opt_kv_map, f_put_mut. cbn [req_dec opt_dec as_bytes].
      rewrite (as_bytes_n_ok 20 rid Hrid), (as_bytes_n_ok 20 target Ht), (as_bytes_n_ok 32 k Hk), (as_bytes_n_ok 64 sig Hs).
      unfold as_i64. rewrite (as_int_ok _ _ seq Hq).
      destruct cas as [c|], salt as [sl|]; cbn [option_map opt_dec oi64_ok as_bytes] in *; rewrite ?(as_int_ok _ _ _ Hc); reflexivity.
Qed.

(* ---------- compact lists ---------- *)
Lemma node_bytes_len n : cnode_ok n -> length (node_bytes n) = 26%nat.
Proof. destruct n as [[i ip] port]. intros (Hi & _ & _). unfold node_bytes, sockaddr_bytes. cbn [fst snd]. rewrite !app_length, Hi. reflexivity. Qed.

Lemma nodes_bytes_len ns : Forall cnode_ok ns -> length (nodes_bytes ns) = (26 * length ns)%nat.
Proof.
  induction 1 as [|n ns Hn _ IH]; [reflexivity|]. unfold nodes_bytes in *. cbn [flat_map length].
  rewrite app_length, (node_bytes_len n Hn), IH. lia.
Qed.

Lemma chunks_nodes ns : Forall cnode_ok ns -> forall fuel, (length ns <= fuel)%nat ->
  chunks 26 fuel (nodes_bytes ns) = map node_bytes ns.
Proof.
  induction 1 as [|n ns Hn Hns IH]; intros fuel Hf.
  - destruct fuel; reflexivity.
  - destruct fuel as [|k]; [cbn in Hf; lia|]. unfold nodes_bytes. cbn [flat_map chunks].
    pose proof (node_bytes_len n Hn) as L.
    destruct (node_bytes n ++ flat_map node_bytes ns) as [|b rest] eqn:E.
    + apply (f_equal (@length N)) in E. rewrite app_length, L in E. cbn in E. lia.
    + rewrite <- E. rewrite (firstn_app_exact _ _ 26 L), (skipn_app_exact _ _ 26 L). cbn [map]. f_equal.
      apply IH. cbn in Hf. lia.
Qed.

Lemma node_decode n : cnode_ok n ->
  (firstn 20 (node_bytes n), be_to_N (firstn 4 (skipn 20 (node_bytes n))), be_to_N (skipn 24 (node_bytes n))) = n.
Proof.
  destruct n as [[i ip] port]. intros (Hi & Hip & Hp). unfold node_bytes. cbn [fst snd].
  rewrite (firstn_app_exact i _ 20 Hi), (skipn_app_exact i _ 20 Hi).
  destruct (sockaddr_roundtrip ip port Hip Hp) as [L6 D]. unfold dec_sockaddr in D. rewrite L6 in D.
  change (Nat.eqb 6 6) with true in D. cbv beta iota in D.
  set (x := be_to_N (firstn 4 (sockaddr_bytes (ip, port)))) in *. set (y := be_to_N (skipn 4 (sockaddr_bytes (ip, port)))) in *.
  injection D as D1 D2. rewrite D1.
  assert (S24: skipn 24 (i ++ sockaddr_bytes (ip, port)) = skipn 4 (sockaddr_bytes (ip, port))).
  { rewrite skipn_app, Hi. rewrite skipn_all2 by lia. reflexivity. }
  rewrite S24. fold y. now rewrite D2.
Qed.

Lemma dec_nodes_ok ns : Forall cnode_ok ns -> dec_nodes (nodes_bytes ns) = Some ns.
Proof.
  intros H. unfold dec_nodes. rewrite (nodes_bytes_len ns H).
  replace (Nat.modulo (26 * length ns) 26) with 0%nat by (symmetry; rewrite Nat.mul_comm; apply Nat.mod_mul; lia).
  cbn [Nat.eqb]. rewrite (chunks_nodes ns H) by lia. f_equal. rewrite map_map.
  induction H as [|n ns Hn _ IH]; [reflexivity|]. cbn [map]. now rewrite (node_decode n Hn), IH.
Qed.

Lemma as_bytes_list_strs (l : list bytes) : as_bytes_list (map BStr l) = Some l.
Proof. induction l as [|x l IH]; [reflexivity|]. cbn [map as_bytes_list as_bytes]. now rewrite IH. Qed.

Lemma all_some_map {A B} (f : B -> option A) (g : A -> B) (P : A -> Prop) l :
  (forall x, P x -> f (g x) = Some x) -> Forall P l -> all_some (map f (map g l)) = Some l.
Proof.
  intros H. induction 1 as [|x l Hx _ IH]; [reflexivity|]. cbn [map all_some]. now rewrite (H x Hx), IH.
Qed.

Lemma dec_peers_ok vals : Forall addr_ok vals -> dec_peers (map sockaddr_bytes vals) = Some vals.
Proof.
  apply all_some_map. intros [ip port] [Hi Hp]. apply (sockaddr_roundtrip ip port Hi Hp).
Qed.

Lemma dec_speers_ok ps : Forall speer_ok ps -> dec_speers (map speer_bytes ps) = Some ps.
Proof.
  apply all_some_map. intros [[k t] sg] (Hk & Hs & Ht). apply (speer_roundtrip k t sg Hk Hs Ht).
Qed.

(* ---------- responses ---------- *)
Definition onodes_ok (o : option (list cnode)) : Prop := match o with Some ns => Forall cnode_ok ns | None => True end.
Definition kresp_ok (r : kresp) : Prop :=
  match r with
  | KRPing i => length i = 20%nat
  | KRFindNode i ns => length i = 20%nat /\ Forall cnode_ok ns
  | KRGetPeers i _ vals ns => length i = 20%nat /\ Forall addr_ok vals /\ onodes_ok ns
  | KRGetSigned i _ ps ns => length i = 20%nat /\ Forall speer_ok ps /\ onodes_ok ns
  | KRGetImm i _ ns _ => length i = 20%nat /\ onodes_ok ns
  | KRGetMut i _ ns _ k seq sig => length i = 20%nat /\ onodes_ok ns /\ length k = 32%nat /\ length sig = 64%nat /\ i64_ok seq
  | KRNoValues i _ ns => length i = 20%nat /\ onodes_ok ns
  | KRNoMore i _ ns seq => length i = 20%nat /\ onodes_ok ns /\ i64_ok seq
  end.

(* every struct-field lookup on a response dictionary is a closed computation on the keys *)
Ltac eval_fields :=
  repeat match goal with |- context [fields_dict ?sc (entries ?l)] =>
    let v := eval vm_compute in (fields_dict sc (entries l)) in change (fields_dict sc (entries l)) with v end;
  cbv beta iota.

Lemma dec_opt_nodes_ok ns : onodes_ok ns -> dec_opt_nodes (option_map nodes_bytes ns) = Some ns.
Proof. destruct ns as [l|]; cbn [onodes_ok option_map dec_opt_nodes]; intros H; [now rewrite (dec_nodes_ok l H)|reflexivity]. Qed.

Ltac resp_start :=
  unfold dec_response, first_sel,
         try_get_mutable, try_no_more, try_get_imm, try_get_peers, try_get_signed, try_no_values, try_find_node, try_ping;
  rewrite !fields_mkdict.

Theorem response_roundtrip r : kresp_ok r -> dec_response (resp_ben r) = Some r.
Proof.
  intros H. destruct r as [i|i ns|i tok vals ns|i tok ps ns|i tok ns v|i tok ns v k seq sig|i tok ns|i tok ns seq]; cbn [kresp_ok] in H.
  - (* ping *)
    cbn [resp_ben]. remember (BStr i) as vi. resp_start. eval_fields. subst vi. cbn [req_dec]. now rewrite (as_bytes_n_ok 20 i H).
  - (* find_node *)
    destruct H as [Hi Hn]. cbn [resp_ben]. remember (BStr i) as vi. remember (BStr (nodes_bytes ns)) as vn. resp_start. eval_fields.
    subst vi vn. cbn [req_dec as_bytes]. now rewrite (as_bytes_n_ok 20 i Hi), (dec_nodes_ok ns Hn).
  - (* get_peers with values *)
    destruct H as (Hi & Hv & Hn). cbn [resp_ben]. unfold nodes_kv. rewrite opt_kv_map.
    remember (BStr i) as vi. remember (BStr tok) as vt. remember (BList (map (fun a => BStr (sockaddr_bytes a)) vals)) as vv.
    destruct ns as [l|]; cbn [option_map app]; [remember (BStr (nodes_bytes l)) as vn|]; resp_start; eval_fields;
      subst vi vt vv; try subst vn; cbn [common3 req_dec opt_dec as_bytes as_vec_bytebuf];
      rewrite (as_bytes_n_ok 20 i Hi), <- (map_map sockaddr_bytes BStr), as_bytes_list_strs, (dec_peers_ok vals Hv);
      cbn [dec_opt_nodes]; [now rewrite (dec_nodes_ok l Hn)|reflexivity].
  - (* get_signed_peers with peers *)
    destruct H as (Hi & Hp & Hn). cbn [resp_ben]. unfold nodes_kv. rewrite opt_kv_map.
    remember (BStr i) as vi. remember (BStr tok) as vt. remember (BList (map (fun p => BStr (speer_bytes p)) ps)) as vv.
    destruct ns as [l|]; cbn [option_map app]; [remember (BStr (nodes_bytes l)) as vn|]; resp_start; eval_fields;
      subst vi vt vv; try subst vn; cbn [common3 req_dec opt_dec as_bytes as_vec_bytebuf];
      rewrite (as_bytes_n_ok 20 i Hi), <- (map_map speer_bytes BStr), as_bytes_list_strs, (dec_speers_ok ps Hp);
      cbn [dec_opt_nodes]; [now rewrite (dec_nodes_ok l Hn)|reflexivity].
  - (* get immutable *)
    destruct H as (Hi & Hn). cbn [resp_ben]. unfold nodes_kv. rewrite opt_kv_map.
    remember (BStr i) as vi. remember (BStr tok) as vt. remember (BStr v) as vv.
    destruct ns as [l|]; cbn [option_map app]; [remember (BStr (nodes_bytes l)) as vn|]; resp_start; eval_fields;
      subst vi vt vv; try subst vn; cbn [common3 req_dec opt_dec as_bytes];
      rewrite (as_bytes_n_ok 20 i Hi); cbn [dec_opt_nodes]; [now rewrite (dec_nodes_ok l Hn)|reflexivity].
  - (* get mutable *)
    destruct H as (Hi & Hn & Hk & Hs & Hq). cbn [resp_ben]. unfold nodes_kv. rewrite opt_kv_map.
    remember (BStr i) as vi. remember (BStr tok) as vt. remember (BStr v) as vv. remember (BStr k) as vk. remember (BStr sig) as vs. remember (BInt seq) as vq.
    destruct ns as [l|]; cbn [option_map app]; [remember (BStr (nodes_bytes l)) as vn|]; resp_start; eval_fields;
      subst vi vt vv vk vs vq; try subst vn; cbn [common3 req_dec opt_dec as_bytes];
      rewrite (as_bytes_n_ok 20 i Hi), (as_bytes_n_ok 32 k Hk), (as_bytes_n_ok 64 sig Hs); unfold as_i64; rewrite (as_int_ok _ _ seq Hq);
      cbn [dec_opt_nodes]; [now rewrite (dec_nodes_ok l Hn)|reflexivity].
  - (* no values *)
    destruct H as (Hi & Hn). cbn [resp_ben]. unfold nodes_kv. rewrite opt_kv_map.
    remember (BStr i) as vi. remember (BStr tok) as vt.
    destruct ns as [l|]; cbn [option_map app]; [remember (BStr (nodes_bytes l)) as vn|]; resp_start; eval_fields;
      subst vi vt; try subst vn; cbn [common3 req_dec opt_dec as_bytes];
      rewrite (as_bytes_n_ok 20 i Hi); cbn [dec_opt_nodes]; [now rewrite (dec_nodes_ok l Hn)|reflexivity].
  - (* no more recent value *)
    destruct H as (Hi & Hn & Hq). cbn [resp_ben]. unfold nodes_kv. rewrite opt_kv_map.
    remember (BStr i) as vi. remember (BStr tok) as vt. remember (BInt seq) as vq.
    destruct ns as [l|]; cbn [option_map app]; [remember (BStr (nodes_bytes l)) as vn|]; resp_start; eval_fields;
      subst vi vt vq; try subst vn; cbn [common3 req_dec opt_dec as_bytes];
      rewrite (as_bytes_n_ok 20 i Hi); unfold as_i64; rewrite (as_int_ok _ _ seq Hq);
      cbn [dec_opt_nodes]; [now rewrite (dec_nodes_ok l Hn)|reflexivity].
Qed.

(* ---------- errors ---------- *)
Lemma error_roundtrip code descr : (-2147483648 <= code <= 2147483647)%Z -> is_utf8 descr = true ->
  dec_error (BList [BInt code; BStr descr]) = Some (MError code descr).
Proof. intros Hc Hu. unfold dec_error. now rewrite (as_int_ok _ _ code Hc), Hu. Qed.

(* ---------- whole messages ---------- *)
Definition kmsg_ok (m : kmsg) : Prop :=
  m_tid m < 2 ^ 32 /\ len_ok 4 (m_version m) /\ (match m_ip m with Some a => addr_ok a | None => True end) /\
  match m_mt m with
  | MRequest rid r => length rid = 20%nat /\ kreq_ok r
  | MResponse r => kresp_ok r
  | MError code descr => (-2147483648 <= code <= 2147483647)%Z /\ is_utf8 descr = true
  end.

Definition mt_entries (mt : kmt) : list (bytes * ben) :=
  match mt with
  | MRequest rid r => let '(q, a) := req_ben rid r in [(k_y, BStr k_q); (k_q, BStr q); (k_a, a)]
  | MResponse r => [(k_y, BStr k_r); (k_r, resp_ben r)]
  | MError code descr => [(k_y, BStr k_e); (k_e, BList [BInt code; BStr descr])]
  end.

Lemma to_ben_entries m :
  to_ben m = mkdict (top_entries (N_to_be 4 (m_tid m)) (m_version m) (option_map sockaddr_bytes (m_ip m)) (m_ro m) (mt_entries (m_mt m))).
Proof. unfold to_ben, top_entries, mt_entries. destruct (m_ip m); reflexivity. Qed.

Lemma no_list_entries tb ver ipb ro rest :
  no_list_v_ip (entries rest) = true -> no_list_v_ip (entries (top_entries tb ver ipb ro rest)) = true.
Proof.
  intros H. unfold no_list_v_ip, top_entries, entries in *. rewrite !map_app, !forallb_app, H.
  destruct ver, ipb; reflexivity.
Qed.

Lemma no_list_mt mt : no_list_v_ip (entries (mt_entries mt)) = true.
Proof.
  destruct mt as [rid r|r|code descr]; cbn [mt_entries].
  - destruct (req_ben rid r) as [q a]. destruct a; reflexivity.
  - destruct (resp_ben r); reflexivity.
  - reflexivity.
Qed.

(* decoding the dictionary the encoder builds gives the message back (up to the salt of a get request,
   which is documented as never sent) *)
Definition dict_of (m : kmsg) : list (ben * ben) :=
  sort_kvs (entries (top_entries (N_to_be 4 (m_tid m)) (m_version m) (option_map sockaddr_bytes (m_ip m)) (m_ro m) (mt_entries (m_mt m)))).

Lemma to_ben_dict m : to_ben m = BDict (dict_of m).
Proof. now rewrite to_ben_entries. Qed.

Theorem krpc_dict_roundtrip m : kmsg_ok m -> of_dict (dict_of m) = DOk (norm m).
Proof.
  intros (Ht & Hv & Hip & Hmt). unfold dict_of.
  set (tb := N_to_be 4 (m_tid m)). set (ipb := option_map sockaddr_bytes (m_ip m)).
  assert (NL: no_list_v_ip (entries (top_entries tb (m_version m) ipb (m_ro m) (mt_entries (m_mt m)))) = true)
    by (apply no_list_entries, no_list_mt).
  rewrite (of_dict_perm _ _ (sort_kvs_perm _)).
  2:{ unfold no_list_v_ip in *. now rewrite (forallb_perm _ _ _ (sort_kvs_perm _)). }
  assert (Hipb: len_ok 6 ipb).
  { unfold ipb. destruct (m_ip m) as [[ip port]|]; cbn [option_map len_ok]; [|exact I]. destruct Hip as [H1 H2].
    apply (sockaddr_roundtrip ip port H1 H2). }
  destruct (tid_roundtrip (m_tid m) Ht) as [Ltb Dtb].
  assert (F: forall mt, finish tb (m_version m) ipb (m_ro m) (Some mt)
                        = DOk {| m_tid := m_tid m; m_version := m_version m; m_ip := m_ip m; m_mt := mt; m_ro := m_ro m |}).
  { intros mt. unfold finish. fold tb in Ltb, Dtb. rewrite Ltb. cbn [Nat.eqb orb negb]. unfold ipb.
    destruct (m_ip m) as [[ip port]|]; cbn [option_map]; [|now rewrite Dtb].
    destruct Hip as [H1 H2]. destruct (sockaddr_roundtrip ip port H1 H2) as [_ D]. rewrite D. cbn [option_map]. now rewrite Dtb. }
  unfold norm. destruct (m_mt m) as [rid r|r|code descr] eqn:Emt; cbn [mt_entries].
  - destruct Hmt as [Hrid Hr]. pose proof (request_roundtrip rid r Hrid Hr) as R.
    destruct (req_ben rid r) as [q a]. cbn [fst snd] in R. rewrite (top_request tb _ ipb _ q a Hv Hipb), R. apply F.
  - rewrite (top_response tb _ ipb _ _ Hv Hipb), (response_roundtrip r Hmt). cbn [option_map]. apply F.
  - destruct Hmt as [Hc Hu]. rewrite (top_error tb _ ipb _ _ Hv Hipb), (error_roundtrip code descr Hc Hu). apply F.
Qed.

(* ... and so does decoding the bytes: Message::from_bytes (Message::to_bytes m) = Ok (norm m) *)
Lemma flat_map_length_perm {A} (f : A -> bytes) l l' : Permutation l l' -> length (flat_map f l) = length (flat_map f l').
Proof.
  induction 1 as [|x l l' _ IH|x y l|l l' l'' _ IH1 _ IH2]; cbn [flat_map]; rewrite ?app_length; try lia.
Qed.

Lemma enc_dict d : enc (BDict d) = [100] ++ flat_map (fun kv : ben * ben => enc (fst kv) ++ enc (snd kv)) d ++ [101].
Proof. reflexivity. Qed.
Lemma enc_str x : enc (BStr x) = dec_N (N.of_nat (length x)) ++ [58] ++ x.
Proof. reflexivity. Qed.
Lemma enc_int z : enc (BInt z) = [105] ++ dec_Z z ++ [101].
Proof. reflexivity. Qed.

Theorem krpc_bytes_roundtrip m : kmsg_ok m -> ben_wf (to_ben m) = true -> of_bytes (to_bytes m) = DOk (norm m).
Proof.
  intros Hm Hw. pose proof (krpc_dict_roundtrip m Hm) as Hd. unfold to_bytes, of_bytes.
  pose proof (ben_parse_enc (to_ben m) [] Hw) as P. rewrite app_nil_r in P. rewrite P, to_ben_dict.
  set (d := dict_of m) in *.
  (* the encoding is at least 15 bytes long: it contains "1:t4:...." and "2:roi.e" *)
  assert (L: (15 <= length (enc (BDict d)))%nat).
  { unfold d, dict_of. rewrite enc_dict, !app_length. cbn [length].
    set (f := fun kv : ben * ben => enc (fst kv) ++ enc (snd kv)).
    rewrite (flat_map_length_perm f _ _ (sort_kvs_perm _)).
    unfold top_entries, entries. rewrite !map_app, !flat_map_app, !app_length.
    cbn [map flat_map fst snd]. unfold f at 1 4. cbn [fst snd]. rewrite !enc_str, enc_int, !app_length. cbn [length app].
    assert (1 <= length (dec_Z (if m_ro m then 1 else 0)))%nat by (destruct (m_ro m); vm_compute; repeat constructor).
    assert (length (N_to_be 4 (m_tid m)) = 4)%nat by reflexivity.
    change (length k_t) with 1%nat. change (length k_ro) with 2%nat. lia. }
  destruct (length (enc (BDict d)) <? 15)%nat eqn:E; [apply Nat.ltb_lt in E; lia|].
  rewrite enc_dict. cbn [app]. exact Hd.
Qed.
