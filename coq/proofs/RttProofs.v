(* RttProofs.v — the request timeout stays between 500 ms and five times the slowest reply ever seen: with
   replies delayed by at most D the bound of C06 ('within a bounded time determined by the request timeout') is
   a constant of the network, not something a slow peer can push up without limit. *)
From Coq Require Import QArith Qabs Lqa List.
From MLV Require Import model.Rtt.
Import ListNotations.
Open Scope Q_scope.

Lemma MIN_pos : 0 < MIN_TIMEOUT.
Proof. reflexivity. Qed.

Definition rtt_ok (D : Q) (r : rtt) : Prop := MIN_TIMEOUT <= r_est r /\ r_est r <= D /\ 0 <= r_dev r /\ r_dev r <= D.

Lemma rtt_update_ok D r s : MIN_TIMEOUT <= D -> s <= D -> rtt_ok D r -> rtt_ok D (rtt_update r s).
Proof.
  unfold rtt_ok. pose proof MIN_pos as HM. intros HD Hs (E1 & E2 & V1 & V2). unfold rtt_update.
  destruct (Qle_bool MIN_TIMEOUT s) eqn:B; [|tauto].
  apply Qle_bool_iff in B. cbn [r_est r_dev].
  rewrite !Qred_correct.
  set (m := MIN_TIMEOUT) in *.
  set (e := (7 # 8) * r_est r + (1 # 8) * s).
  assert (Ee: m <= e /\ e <= D) by (unfold e; split; lra).
  assert (A: 0 <= Qabs (s - e) /\ Qabs (s - e) <= D).
  { split; [apply Qabs_nonneg|]. apply Qabs_Qle_condition. split; lra. }
  repeat split; try lra.
Qed.

Theorem rtt_bounded D samples : MIN_TIMEOUT <= D -> Forall (fun s => s <= D) samples ->
  rtt_ok D (rtt_run samples).
Proof.
  intros HD F. unfold rtt_run.
  assert (G: forall r, rtt_ok D r -> rtt_ok D (fold_left rtt_update samples r)).
  { induction F as [|s l Hs F IH]; intros r Hr; [exact Hr|]. cbn [fold_left]. apply IH. now apply rtt_update_ok. }
  apply G. pose proof MIN_pos as HM. unfold rtt_ok, rtt0. cbn [r_est r_dev]. set (m := MIN_TIMEOUT) in *. repeat split; lra.
Qed.

(* the timeout in force: never below 500 ms, never above five times the slowest reply (or 2.5 s) *)
Theorem timeout_bounded D samples : MIN_TIMEOUT <= D -> Forall (fun s => s <= D) samples ->
  MIN_TIMEOUT <= rtt_timeout (rtt_run samples) /\ rtt_timeout (rtt_run samples) <= 5 * D.
Proof.
  intros HD F. destruct (rtt_bounded D samples HD F) as (E1 & E2 & V1 & V2). unfold rtt_timeout. set (m := MIN_TIMEOUT) in *. split; lra.
Qed.

(* replies faster than 500 ms never change it *)
Theorem fast_replies_ignored r s : s < MIN_TIMEOUT -> rtt_update r s = r.
Proof.
  intros H. unfold rtt_update. destruct (Qle_bool MIN_TIMEOUT s) eqn:B; [|reflexivity].
  apply Qle_bool_iff in B. exfalso. apply (Qlt_not_le _ _ H B).
Qed.
