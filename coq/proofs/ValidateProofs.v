(* ValidateProofs.v — lemmas behind properties/C02.v *)
From Coq Require Import Lia.
From MLV Require Import gen.Params model.Bytes model.Crc32c model.Id model.Sha1 model.Server model.Validate.
Open Scope N_scope.

Section P.
  Variable verify : bytes -> bytes -> bytes -> bool.

  Lemma bytes_eqb_eq a b : bytes_eqb a b = true -> a = b.
  Proof.
    revert b; induction a as [|x a IH]; intros [|y b] H; cbn in H; try discriminate; [reflexivity|].
    apply andb_true_iff in H as [H1 H2]. apply N.eqb_eq in H1. f_equal; auto.
  Qed.

  Lemma item_from_dht_sound target k v seq sig salt it :
    item_from_dht verify target k v seq sig salt = Some it ->
    it = {| i_target := target; i_key := k; i_seq := seq; i_val := v; i_sig := sig; i_salt := salt |} /\
    length k = 32%nat /\ length sig = 64%nat /\ target = target_from_key k salt /\
    verify k (encode_signable seq v salt) sig = true.
  Proof.
    unfold item_from_dht.
    destruct (length k =? 32)%nat eqn:Ek; cbn [negb]; [|discriminate].
    destruct (bytes_eqb target (target_from_key k salt)) eqn:Et; cbn [negb]; [|discriminate].
    destruct (length sig =? 64)%nat eqn:Es; cbn [negb]; [|discriminate].
    destruct (verify k (encode_signable seq v salt) sig) eqn:Ev; [|discriminate].
    intros H; injection H as <-. apply Nat.eqb_eq in Ek, Es. apply bytes_eqb_eq in Et. auto.
  Qed.

  Lemma sann_from_dht_sound ih k t sig now vt a :
    sann_from_dht verify ih k t sig now vt = Some a ->
    a = {| s_key := k; s_ts := t; s_sig := sig |} /\ length k = 32%nat /\ length sig = 64%nat /\
    verify k (encode_signable_announce ih t) sig = true.
  Proof.
    unfold sann_from_dht.
    destruct (length k =? 32)%nat eqn:Ek; cbn [negb]; [|discriminate].
    destruct (length sig =? 64)%nat eqn:Es; cbn [negb]; [|discriminate].
    destruct (verify k (encode_signable_announce ih t) sig) eqn:Ev; cbn [negb]; [|discriminate].
    destruct (vt && _); [discriminate|]. intros H; injection H as <-.
    apply Nat.eqb_eq in Ek, Es. auto.
  Qed.

  Lemma verify_all_sound target ps l :
    verify_all verify target ps = Some l ->
    length l = length ps /\
    forall a, In a l -> length (s_key a) = 32%nat /\ length (s_sig a) = 64%nat /\
                        verify (s_key a) (encode_signable_announce target (s_ts a)) (s_sig a) = true.
  Proof.
    revert l; induction ps as [|[[k t] sig] r IH]; intros l H; cbn [verify_all] in H.
    - injection H as <-. split; [reflexivity|intros a []].
    - destruct (sann_from_dht verify target k t sig 0 false) as [a0|] eqn:E; [|discriminate].
      destruct (verify_all verify target r) as [l0|]; [|discriminate]. injection H as <-.
      destruct (IH l0 eq_refl) as [Hl Ha]. split; [cbn; lia|].
      intros a [<-|Hin]; [|auto].
      apply sann_from_dht_sound in E as (-> & Hk & Hs & Hv). cbn. auto.
  Qed.

  (* one forged entry poisons the whole list *)
  Lemma verify_all_all_or_nothing target ps k t sig :
    In (k, t, sig) ps -> sann_from_dht verify target k t sig 0 false = None -> verify_all verify target ps = None.
  Proof.
    induction ps as [|[[k' t'] sig'] r IH]; intros Hin Hbad; [destruct Hin|].
    cbn [verify_all]. destruct Hin as [E|Hin].
    - injection E as -> -> ->. now rewrite Hbad.
    - destruct (sann_from_dht verify target k' t' sig' 0 false); [|reflexivity]. now rewrite (IH Hin Hbad).
  Qed.

  Theorem accept_authentic target salt r y : accept verify target salt r = Some y -> authentic verify target salt y.
  Proof.
    destruct r as [vs|ps|v|k v seq sig|]; cbn [accept]; intros H.
    - injection H as <-. exact I.
    - destruct (verify_all verify target ps) as [l|] eqn:E; [|discriminate]. injection H as <-.
      cbn [authentic]. apply (verify_all_sound _ _ _ E).
    - destruct (validate_immutable v target) eqn:E; [|discriminate]. injection H as <-.
      cbn [authentic]. unfold validate_immutable in E. now apply bytes_eqb_eq.
    - destruct (item_from_dht verify target k v seq sig salt) as [it|] eqn:E; [|discriminate]. injection H as <-.
      apply item_from_dht_sound in E as (-> & Hk & Hs & Ht & Hv). cbn. auto 10.
    - discriminate.
  Qed.

  Theorem cached_authentic target salt rs y : In y (cached verify target salt rs) -> authentic verify target salt y.
  Proof.
    induction rs as [|r rest IH]; [intros []|]. cbn [cached].
    destruct (accept verify target salt r) as [y0|] eqn:E; [|exact IH].
    intros [<-|Hin]; [now apply (accept_authentic _ _ r)|auto].
  Qed.

  Theorem received_authentic kind target salt rs y :
    In y (received verify kind target salt rs) -> authentic verify target salt y /\ deliverable kind y = true.
  Proof.
    unfold received. intros H. apply filter_In in H as [H1 H2]. split; [now apply (cached_authentic _ _ rs)|exact H2].
  Qed.

  (* a response that fails validation changes nothing a caller can ever see, whatever surrounds it *)
  Theorem rejected_leaves_no_trace kind target salt pre r post :
    accept verify target salt r = None ->
    received verify kind target salt (pre ++ r :: post) = received verify kind target salt (pre ++ post).
  Proof.
    intros H. unfold received. f_equal. induction pre as [|p pre IH]; cbn [app cached].
    - now rewrite H.
    - destruct (accept verify target salt p); now rewrite IH.
  Qed.

  (* the API derives the target from (public key, salt): a yielded item's key hashes, with the requested
     salt, to the same target; the keys are equal unless SHA-1 collides on these two 32(+salt)-byte inputs *)
  Theorem mutable_key_is_requested pk salt rs it :
    length pk = 32%nat ->
    In (YMut it) (received verify GMut (target_from_key pk salt) salt rs) ->
    target_from_key (i_key it) salt = target_from_key pk salt /\
    (let s := match salt with Some s => s | None => [] end in
     (sha1 (pk ++ s) = sha1 (i_key it ++ s) -> pk ++ s = i_key it ++ s) -> i_key it = pk).
  Proof.
    intros Hpk H. apply received_authentic in H as [H _]. cbn in H.
    destruct H as (_ & _ & Hk & _ & Ht & _). split; [now rewrite <- Ht|].
    cbv zeta. intros Hinj. unfold target_from_key in Ht. apply Hinj in Ht.
    assert (L: forall (a b s : bytes), length a = length b -> b ++ s = a ++ s -> a = b).
    { induction a as [|x a IH]; intros [|z b] s Hl Hab; cbn in *; try discriminate; [reflexivity|].
      injection Hab as -> Hab. f_equal. apply (IH b s); [lia|exact Hab]. }
    apply (L _ _ (match salt with Some s => s | None => [] end)); [lia|exact Ht].
  Qed.
End P.
