(* ClosestProofs.v — lemmas behind properties/C11.v *)
From Coq Require Import Lia Sorted Permutation.
From MLV Require Import gen.Params model.Bytes model.Crc32c model.Id model.Node model.BSearch model.Closest
  proofs.BSearchProofs.
Open Scope N_scope.

(* ---------- bytes_cmp is a strict total order ---------- *)
Lemma bytes_cmp_refl a : bytes_cmp a a = Eq.
Proof. induction a as [|x a IH]; [reflexivity|]. cbn [bytes_cmp]. now rewrite N.compare_refl. Qed.

Lemma bytes_cmp_eq a : forall b, bytes_cmp a b = Eq -> a = b.
Proof.
  induction a as [|x a IH]; intros [|y b]; cbn [bytes_cmp]; try discriminate; [reflexivity|].
  destruct (N.compare_spec x y) as [->|H|H]; try discriminate. intros E. f_equal. now apply IH.
Qed.

Lemma bytes_cmp_antisym a : forall b, bytes_cmp b a = CompOpp (bytes_cmp a b).
Proof.
  induction a as [|x a IH]; intros [|y b]; cbn [bytes_cmp]; try reflexivity.
  rewrite (N.compare_antisym x y). destruct (x ?= y); cbn [CompOpp]; [apply IH|reflexivity|reflexivity].
Qed.

Lemma bytes_cmp_trans a : forall b c, bytes_cmp a b = Lt -> bytes_cmp b c = Lt -> bytes_cmp a c = Lt.
Proof.
  induction a as [|x a IH]; intros [|y b] [|z c]; cbn [bytes_cmp]; try discriminate; try reflexivity.
  destruct (N.compare_spec x y) as [->|Hxy|Hxy]; try discriminate.
  - destruct (N.compare_spec y z) as [->|Hyz|Hyz]; try discriminate; [apply IH|reflexivity].
  - intros _. destruct (N.compare_spec y z) as [->|Hyz|Hyz]; try discriminate.
    + intros _. destruct (N.compare_spec x z); try lia; reflexivity.
    + intros _. destruct (N.compare_spec x z); try lia; reflexivity.
Qed.

(* ---------- the key order of ClosestNodes ---------- *)
Definition nkey (target : id) (n : node) : bool * bytes := (nsec n, id_xor (nid n) target).
Definition kcmp (a b : bool * bytes) : comparison :=
  if fst a && negb (fst b) then Lt
  else if negb (fst a) && fst b then Gt
  else bytes_cmp (snd a) (snd b).
Definition klt (a b : bool * bytes) : Prop := kcmp a b = Lt.

Lemma kcmp_lt a b : kcmp a b = Lt <-> klt a b. Proof. reflexivity. Qed.

Lemma kcmp_eq a b : kcmp a b = Eq <-> a = b.
Proof.
  destruct a as [sa xa], b as [sb xb]. unfold kcmp. cbn [fst snd]. split.
  - destruct sa, sb; cbn; try discriminate; intros E; apply bytes_cmp_eq in E; now subst.
  - intros E. injection E as -> ->. destruct sb; cbn; apply bytes_cmp_refl.
Qed.

Lemma kcmp_gt a b : kcmp a b = Gt <-> klt b a.
Proof.
  destruct a as [sa xa], b as [sb xb]. unfold klt, kcmp. cbn [fst snd].
  destruct sa, sb; cbn; try (split; [reflexivity|reflexivity]); try (split; discriminate);
    rewrite (bytes_cmp_antisym xa xb); destruct (bytes_cmp xa xb); cbn; split; try discriminate; reflexivity.
Qed.

Lemma klt_trans a b c : klt a b -> klt b c -> klt a c.
Proof.
  destruct a as [sa xa], b as [sb xb], c as [sc xc]. unfold klt, kcmp. cbn [fst snd].
  destruct sa, sb, sc; cbn; try discriminate; try reflexivity; apply bytes_cmp_trans.
Qed.

Lemma klt_irrefl a : ~ klt a a.
Proof.
  destruct a as [sa xa]. unfold klt, kcmp. cbn [fst snd]. destruct sa; cbn; rewrite bytes_cmp_refl; discriminate.
Qed.

Lemma bytes_eqb_true a : forall b, bytes_eqb a b = true -> a = b.
Proof.
  induction a as [|x a IH]; intros [|y b]; cbn [bytes_eqb]; try discriminate; [reflexivity|].
  rewrite andb_true_iff, N.eqb_eq. intros [-> H]. f_equal. now apply IH.
Qed.

(* the closure of ClosestNodes::add is the key comparison *)
Lemma cn_cmp_kcmp target n p : cn_cmp target n p = kcmp (nkey target p) (nkey target n).
Proof.
  unfold cn_cmp, kcmp, nkey. cbn [fst snd].
  destruct (nsec p && negb (nsec n)); [reflexivity|].
  destruct (negb (nsec p) && nsec n); [reflexivity|].
  destruct (bytes_eqb (nid p) (nid n)) eqn:E; [|reflexivity].
  apply bytes_eqb_true in E. rewrite E. symmetry. apply bytes_cmp_refl.
Qed.

Definition cn_sorted (target : id) (l : list node) : Prop :=
  StronglySorted (fun a b => klt (nkey target a) (nkey target b)) l.

Lemma cn_insert_is_add target l n :
  cn_insert target l n = add (nkey target) kcmp l n.
Proof.
  unfold cn_insert, add.
  replace (binary_search (cn_cmp target n) l) with (binary_search (fun probe => kcmp (nkey target probe) (nkey target n)) l).
  - reflexivity.
  - destruct l as [|d t]; [reflexivity|]. unfold binary_search.
    assert (E: forall fuel base size, bs_loop (fun probe => kcmp (nkey target probe) (nkey target n)) fuel (d :: t) d base size
                                      = bs_loop (cn_cmp target n) fuel (d :: t) d base size).
    { induction fuel as [|k IH]; intros base size; [reflexivity|]. cbn [bs_loop].
      destruct (size <=? 1)%nat; [reflexivity|]. rewrite cn_cmp_kcmp. apply IH. }
    rewrite E. now rewrite cn_cmp_kcmp.
Qed.

Theorem cn_insert_sorted target l n : cn_sorted target l -> cn_sorted target (cn_insert target l n).
Proof.
  intros H. rewrite cn_insert_is_add.
  apply (add_sorted (nkey target) kcmp klt kcmp_lt kcmp_eq kcmp_gt klt_trans). exact H.
Qed.

Theorem cn_add_sorted target l n : cn_sorted target l -> cn_sorted target (cn_add target l n).
Proof. intros H. unfold cn_add. destruct (already_exists n l); [exact H|now apply cn_insert_sorted]. Qed.

(* every insertion sequence *)
Theorem cn_adds_sorted target ns : forall l, cn_sorted target l -> cn_sorted target (fold_left (cn_add target) ns l).
Proof. induction ns as [|n ns IH]; intros l H; [exact H|]. cbn [fold_left]. apply IH. now apply cn_add_sorted. Qed.

Theorem cn_add_members target l n y : In y (cn_add target l n) -> In y l \/ y = n.
Proof.
  unfold cn_add. destruct (already_exists n l); [tauto|]. rewrite cn_insert_is_add. apply add_members.
Qed.

Theorem cn_add_keeps target l n y : In y l -> In y (cn_add target l n).
Proof.
  unfold cn_add. destruct (already_exists n l); [tauto|]. rewrite cn_insert_is_add. apply add_keeps.
Qed.

(* ---------- take_until_secure ---------- *)
Theorem take_until_secure_prefix target nodes edk avg :
  exists k, take_until_secure target nodes edk avg = firstn k nodes
            /\ (Nat.min K (length nodes) <= k <= length nodes)%nat.
Proof.
  unfold take_until_secure. eexists. split; [reflexivity|]. lia.
Qed.

(* ---------- xor is injective on ids of equal length ---------- *)
Lemma id_xor_inj a : forall b t, length a = length t -> length b = length t -> id_xor a t = id_xor b t -> a = b.
Proof.
  induction a as [|x a IH]; intros [|y b] [|z t] La Lb E; try discriminate; [reflexivity|].
  cbn [id_xor] in E. injection E as E1 E2. injection La as La. injection Lb as Lb. f_equal; [|eapply IH; eassumption].
  assert (H: N.lxor (N.lxor x z) z = N.lxor (N.lxor y z) z) by now rewrite E1.
  now rewrite !N.lxor_assoc, !N.lxor_nilpotent, !N.lxor_0_r in H.
Qed.

(* ---------- full sorted insertion of a list with distinct ids ---------- *)
Definition ids_ok (l : list node) : Prop := Forall (fun n => length (nid n) = 20%nat) l.

Lemma key_inj target a b :
  length target = 20%nat -> length (nid a) = 20%nat -> length (nid b) = 20%nat ->
  nkey target a = nkey target b -> nid a = nid b.
Proof. unfold nkey. intros Lt La Lb E. injection E as _ E. eapply id_xor_inj; [| |exact E]; congruence. Qed.

Theorem cn_inserts_spec target vals : length target = 20%nat ->
  ids_ok vals -> NoDup (map nid vals) ->
  forall acc, cn_sorted target acc -> ids_ok acc -> NoDup (map nid (acc ++ vals)) ->
  let full := fold_left (cn_insert target) vals acc in
  cn_sorted target full /\ Permutation full (acc ++ vals).
Proof.
  intros Lt. induction vals as [|v vals IH]; intros Hok Hnd acc Hs Hacc Hall; cbn [fold_left].
  - split; [exact Hs|]. now rewrite app_nil_r.
  - inversion Hok as [|? ? Hv Hok']; subst.
    assert (Hnd': NoDup (map nid vals)) by (cbn in Hnd; now inversion Hnd).
    pose proof (cn_insert_sorted target acc v Hs) as Hs'.
    destruct (add_perm (nkey target) kcmp klt kcmp_lt kcmp_eq kcmp_gt klt_trans klt_irrefl acc v Hs)
      as [(y & Hy & Ek & _)|(_ & P)].
    + exfalso. (* an element with the same key would have the same id *)
      unfold ids_ok in Hacc. rewrite Forall_forall in Hacc.
      assert (nid y = nid v) by (apply (key_inj target); [exact Lt|now apply Hacc|exact Hv|exact Ek]).
      rewrite map_app in Hall. cbn [map] in Hall. apply NoDup_remove_2 in Hall. apply Hall.
      apply in_or_app. left. rewrite <- H. now apply in_map.
    + rewrite <- cn_insert_is_add in P.
      assert (Hacc': ids_ok (cn_insert target acc v)).
      { unfold ids_ok. rewrite Forall_forall. intros x Hx. eapply Permutation_in in Hx; [|exact P].
        destruct Hx as [<-|Hx]; [assumption|]. unfold ids_ok in Hacc. rewrite Forall_forall in Hacc. now apply Hacc. }
      assert (Hall': NoDup (map nid (cn_insert target acc v ++ vals))).
      { eapply Permutation_NoDup; [|exact Hall]. apply Permutation_map.
        eapply Permutation_trans; [apply Permutation_sym, Permutation_middle|].
        change (v :: acc ++ vals) with ((v :: acc) ++ vals). apply Permutation_app_tail.
        apply Permutation_sym. exact P. }
      destruct (IH Hok' Hnd' _ Hs' Hacc' Hall') as [S P'].
      split; [exact S|]. eapply Permutation_trans; [exact P'|].
      eapply Permutation_trans; [apply Permutation_app_tail; exact P|].
      change ((v :: acc) ++ vals) with (v :: acc ++ vals). apply Permutation_middle.
Qed.

(* any other strictly sorted arrangement of the same nodes is the same list *)
Theorem cn_sorted_unique target l1 l2 : length target = 20%nat ->
  ids_ok l1 -> NoDup (map nid l1) ->
  cn_sorted target l1 -> cn_sorted target l2 -> Permutation l1 l2 -> l1 = l2.
Proof.
  intros Lt Hok Hnd S1 S2 P.
  apply (sorted_perm_unique (nkey target) klt klt_trans klt_irrefl); try assumption.
  intros a b E Ha Hb.
  assert (Hb': In b l1) by (eapply Permutation_in; [apply Permutation_sym; exact P|exact Hb]).
  unfold ids_ok in Hok. rewrite Forall_forall in Hok.
  assert (Eid: nid a = nid b) by (eapply key_inj; eauto).
  (* distinct ids in l1 *)
  clear - Hnd Ha Hb' Eid. induction l1 as [|x l IH]; [destruct Ha|].
  cbn in Hnd. inversion Hnd as [|? ? Hx Hnd']; subst.
  destruct Ha as [->|Ha], Hb' as [->|Hb']; try reflexivity.
  - exfalso. apply Hx. rewrite Eid. now apply in_map.
  - exfalso. apply Hx. rewrite <- Eid. now apply in_map.
  - now apply IH.
Qed.
