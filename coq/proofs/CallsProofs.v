(* CallsProofs.v — the per-call bookkeeping of a node (Calls.v), for every history of API calls and ticks and
   for every choice of what the ticks find done:
     - the invariant: a parked get caller waits on an active lookup; a parked put caller waits on an active
       put; a put that has not started waits on an active lookup;
     - conservation: the callers of a history are exactly those still parked plus those that were told their
       outcome - so nobody is told twice, and once nothing is parked everybody was told exactly once;
     - progress: the tick that finds a lookup / put done tells everybody parked on it (a waiting put starts
       or fails);
     - quiescence: with no lookup and no put left, nobody is parked. *)
From Coq Require Import Lia Permutation.
From MLV Require Import gen.Params model.Bytes model.PutQuery model.Calls.
Open Scope N_scope.

(* ---------- lists ---------- *)
Lemma memN_In x l : memN x l = true <-> In x l.
Proof.
  unfold memN. rewrite existsb_exists. split.
  - intros (y & Hy & E). apply N.eqb_eq in E. now subst.
  - intros H. exists x. split; [exact H|apply N.eqb_refl].
Qed.

Lemma memN_notIn x l : memN x l = false <-> ~ In x l.
Proof.
  split.
  - intros H Hin. apply memN_In in Hin. congruence.
  - intros H. destruct (memN x l) eqn:E; [|reflexivity]. apply memN_In in E. contradiction.
Qed.

Lemma add_lookup_in t l x : In x (add_lookup t l) <-> x = t \/ In x l.
Proof.
  unfold add_lookup. destruct (memN t l) eqn:E.
  - apply memN_In in E. split; [now right|]. intros [->|H]; assumption.
  - cbn [In]. split; intros [H|H]; auto.
Qed.

Lemma add_lookup_nodup t l : NoDup l -> NoDup (add_lookup t l).
Proof.
  intros H. unfold add_lookup. destruct (memN t l) eqn:E; [exact H|].
  constructor; [now apply memN_notIn|exact H].
Qed.

Lemma NoDup_map_filter {A B} (f : A -> B) (g : A -> bool) l : NoDup (map f l) -> NoDup (map f (filter g l)).
Proof.
  induction l as [|a l IH]; cbn [map filter]; intros H; [constructor|].
  inversion H as [|x xs Hn Hd]; subst. destruct (g a); cbn [map]; [|now apply IH].
  constructor; [|now apply IH]. intros Hin. apply Hn. apply in_map_iff in Hin as (y & Ey & Hy).
  apply filter_In in Hy as [Hy _]. apply in_map_iff. now exists y.
Qed.

Lemma filter_perm {A} (f : A -> bool) l : Permutation l (filter (fun x => negb (f x)) l ++ filter f l).
Proof.
  induction l as [|a l IH]; cbn [filter]; [constructor|].
  destruct (f a); cbn [negb app].
  - apply Permutation_cons_app. exact IH.
  - now constructor.
Qed.

Lemma nodup_target_eq l p q : NoDup (map pe_target l) -> In p l -> In q l -> pe_target p = pe_target q -> p = q.
Proof.
  induction l as [|a l IH]; cbn [map]; intros N Hp Hq E; [destruct Hp|].
  inversion N as [|x xs Hn Hd]; subst.
  destruct Hp as [->|Hp], Hq as [->|Hq]; try reflexivity.
  - exfalso. apply Hn. rewrite E. now apply in_map.
  - exfalso. apply Hn. rewrite <- E. now apply in_map.
  - now apply IH.
Qed.

(* ---------- the put table ---------- *)
Lemma find_put_some t l p : find_put t l = Some p -> In p l /\ pe_target p = t.
Proof. unfold find_put. intros H. apply find_some in H as [H E]. apply N.eqb_eq in E. now split. Qed.

Lemma find_put_none t l : find_put t l = None -> forall p, In p l -> pe_target p <> t.
Proof. unfold find_put. intros H p Hp E. pose proof (find_none _ _ H p Hp) as F. cbn in F. apply N.eqb_neq in F. contradiction. Qed.

Lemma find_put_in l p : NoDup (map pe_target l) -> In p l -> find_put (pe_target p) l = Some p.
Proof.
  intros N Hp. destruct (find_put (pe_target p) l) as [q|] eqn:E.
  - apply find_put_some in E as [Hq Eq]. f_equal. now apply (nodup_target_eq l).
  - exfalso. exact (find_put_none _ _ E p Hp eq_refl).
Qed.

Lemma remove_put_in t l p : In p (remove_put t l) <-> In p l /\ pe_target p <> t.
Proof.
  unfold remove_put. rewrite filter_In. split; intros [H E]; split; try exact H.
  - apply negb_true_iff, N.eqb_neq in E. exact E.
  - apply negb_true_iff, N.eqb_neq. exact E.
Qed.

Lemma insert_put_in p l q : In q (insert_put p l) <-> q = p \/ (In q l /\ pe_target q <> pe_target p).
Proof. unfold insert_put. cbn [In]. rewrite remove_put_in. split; intros [H|H]; auto. Qed.

Lemma insert_put_nodup p l : NoDup (map pe_target l) -> NoDup (map pe_target (insert_put p l)).
Proof.
  intros N. unfold insert_put. cbn [map]. constructor.
  - intros Hin. apply in_map_iff in Hin as (q & Eq & Hq). apply remove_put_in in Hq as [_ Hne]. contradiction.
  - unfold remove_put. now apply NoDup_map_filter.
Qed.

Lemma mark_started_targets t l : map pe_target (mark_started t l) = map pe_target l.
Proof.
  unfold mark_started. rewrite map_map. apply map_ext. intros p.
  destruct (pe_target p =? t) eqn:E; [|reflexivity]. apply N.eqb_eq in E. now rewrite E.
Qed.

Lemma mark_started_unstarted t l p : In p (mark_started t l) -> pe_started p = false -> In p l /\ pe_target p <> t.
Proof.
  unfold mark_started. intros H S. apply in_map_iff in H as (q & Eq & Hq).
  destruct (pe_target q =? t) eqn:E.
  - subst p. discriminate S.
  - subst p. split; [exact Hq|]. now apply N.eqb_neq.
Qed.

Lemma mark_started_hit t l p : In p l -> pe_target p = t ->
  exists p', In p' (mark_started t l) /\ pe_target p' = t /\ pe_started p' = true.
Proof.
  intros Hp E. exists {| pe_target := t; pe_started := true; pe_mut := pe_mut p |}. split; [|now split].
  unfold mark_started. apply in_map_iff. exists p. split; [|exact Hp]. apply N.eqb_eq in E. now rewrite E.
Qed.

(* ---------- start_put_queries ---------- *)
Lemma start_puts_targets dget : forall ps, map pe_target (fst (start_puts dget ps)) = map pe_target ps.
Proof.
  induction dget as [|[t ok] r IH]; intros ps; [reflexivity|]. cbn [start_puts].
  destruct (find_put t ps) as [p|]; [|apply IH].
  destruct (pe_started p); [apply IH|]. destruct ok.
  - rewrite IH. apply mark_started_targets.
  - specialize (IH ps). destruct (start_puts r ps) as [ps' ex]. exact IH.
Qed.

Lemma start_puts_unstarted dget : forall ps p, In p (fst (start_puts dget ps)) -> pe_started p = false -> In p ps.
Proof.
  induction dget as [|[t ok] r IH]; intros ps p H S; [exact H|]. cbn [start_puts] in H.
  destruct (find_put t ps) as [q|]; [|now apply IH].
  destruct (pe_started q); [now apply IH|]. destruct ok.
  - apply IH in H; [|exact S]. now apply mark_started_unstarted in H.
  - specialize (IH ps p). destruct (start_puts r ps) as [ps' ex]. now apply IH.
Qed.

(* a waiting put whose lookup is found done is started, or reported failed *)
Lemma start_puts_waiting dget : forall ps p, NoDup (map pe_target ps) -> In p ps -> pe_started p = false ->
  In (pe_target p) (map fst dget) ->
  (exists p', In p' (fst (start_puts dget ps)) /\ pe_target p' = pe_target p /\ pe_started p' = true)
  \/ In (pe_target p, OutErr ENoClosestNodes) (snd (start_puts dget ps)).
Proof.
  induction dget as [|[t ok] r IH]; intros ps p N Hp S Hin; [destruct Hin|].
  cbn [start_puts]. cbn [map fst In] in Hin.
  destruct (N.eq_dec t (pe_target p)) as [E|NE].
  - subst t. rewrite (find_put_in ps p N Hp), S. destruct ok.
    + left. destruct (mark_started_hit (pe_target p) ps p Hp eq_refl) as (p' & Hp' & Et & St).
      (* once started it stays started through the rest *)
      assert (K: forall d l q, In q l -> pe_started q = true ->
                 exists q', In q' (fst (start_puts d l)) /\ pe_target q' = pe_target q /\ pe_started q' = true).
      { clear. induction d as [|[t ok] d IH]; intros l q Hq Sq; [now exists q|]. cbn [start_puts].
        destruct (find_put t l) as [x|]; [|now apply IH].
        destruct (pe_started x); [now apply IH|]. destruct ok.
        - assert (Hq': In q (mark_started t l)).
          { unfold mark_started. apply in_map_iff. exists q. split; [|exact Hq].
            destruct (pe_target q =? t) eqn:E; [|reflexivity]. apply N.eqb_eq in E. destruct q as [qt qs qm]. cbn in *. now subst. }
          now apply IH.
        - specialize (IH l q Hq Sq). destruct (start_puts d l) as [l' ex]. exact IH. }
      destruct (K r _ p' Hp' St) as (q' & Hq' & Eq' & Sq'). exists q'. split; [exact Hq'|]. split; [congruence|exact Sq'].
    + right. destruct (start_puts r ps) as [ps' ex]. cbn [snd]. now left.
  - destruct Hin as [Hin|Hin]; [contradiction|].
    destruct (find_put t ps) as [q|] eqn:F; [|now apply IH].
    destruct (pe_started q) eqn:Sq; [now apply IH|]. destruct ok.
    + apply IH; try assumption.
      * rewrite mark_started_targets. exact N.
      * unfold mark_started. apply in_map_iff. exists p. split; [|exact Hp].
        destruct (pe_target p =? t) eqn:E; [|reflexivity]. apply N.eqb_eq in E. congruence.
    + specialize (IH ps p N Hp S Hin). destruct (start_puts r ps) as [ps' ex]. cbn [fst snd] in *.
      destruct IH as [IH|IH]; [now left|right; now right].
Qed.

(* ---------- releasing callers ---------- *)
Lemma release_puts_fst dput : forall ps,
  fst (release_puts dput ps) = filter (fun e => negb (memN (fst e) (map fst dput))) ps.
Proof.
  induction dput as [|[t r] rest IH]; intros ps; cbn [release_puts map fst memN existsb].
  - cbn. induction ps as [|a ps IHp]; [reflexivity|]. cbn [filter negb]. now rewrite <- IHp.
  - specialize (IH (filter (fun e => negb (fst e =? t)) ps)).
    destruct (release_puts rest (filter (fun e => negb (fst e =? t)) ps)) as [ps' later]. cbn [fst] in *.
    rewrite IH. clear. induction ps as [|a ps IHp]; [reflexivity|]. cbn [filter].
    destruct (fst a =? t) eqn:E; cbn [negb orb filter].
    + rewrite IHp. fold (memN (fst a) (map fst rest)). reflexivity.
    + fold (memN (fst a) (map fst rest)). destruct (memN (fst a) (map fst rest)); cbn [negb]; now rewrite IHp.
Qed.

Lemma release_puts_perm dput : forall ps,
  Permutation (map snd ps) (map snd (fst (release_puts dput ps)) ++ map oc_caller (snd (release_puts dput ps))).
Proof.
  induction dput as [|[t r] rest IH]; intros ps; cbn [release_puts].
  - cbn. now rewrite app_nil_r.
  - specialize (IH (filter (fun e => negb (fst e =? t)) ps)).
    destruct (release_puts rest (filter (fun e => negb (fst e =? t)) ps)) as [ps' later]. cbn [fst snd] in *.
    rewrite map_app, map_map. cbn [oc_caller].
    pose proof (filter_perm (fun e : N * N => fst e =? t) ps) as P.
    apply (Permutation_map snd) in P. rewrite map_app in P.
    rewrite P. rewrite IH.
    rewrite <- app_assoc. apply Permutation_app_head. apply Permutation_app_comm.
Qed.

Lemma release_puts_told dput : forall ps t c, In (t, c) ps -> In t (map fst dput) ->
  exists r, In (OPut c r) (snd (release_puts dput ps)).
Proof.
  induction dput as [|[t0 r0] rest IH]; intros ps t c Hin Ht; [destruct Ht|]. cbn [release_puts].
  destruct (N.eq_dec t t0) as [->|NE].
  - exists r0. destruct (release_puts rest _) as [ps' later]. cbn [snd]. apply in_or_app. left.
    apply in_map_iff. exists (t0, c). split; [reflexivity|]. apply filter_In. split; [exact Hin|]. apply N.eqb_refl.
  - cbn [map fst In] in Ht. destruct Ht as [Ht|Ht]; [congruence|].
    destruct (IH (filter (fun e => negb (fst e =? t0)) ps) t c) as (r & Hr); [|exact Ht|].
    + apply filter_In. split; [exact Hin|]. cbn [fst]. now apply negb_true_iff, N.eqb_neq.
    + exists r. destruct (release_puts rest _) as [ps' later]. cbn [snd] in *. apply in_or_app. now right.
Qed.

(* ---------- the invariant ---------- *)
Record Inv (s : cstate) : Prop := {
  i_nl : NoDup (lookups s);
  i_np : NoDup (map pe_target (puts s));
  (* a parked get caller waits on an active lookup *)
  i_g : forall t c, In (t, c) (gsend s) -> In t (lookups s);
  (* a parked put caller waits on an active put *)
  i_p : forall t c, In (t, c) (psend s) -> exists p, In p (puts s) /\ pe_target p = t;
  (* a put that has not started waits on an active lookup *)
  i_w : forall p, In p (puts s) -> pe_started p = true \/ In (pe_target p) (lookups s) }.

Lemma inv0 : Inv cstate0.
Proof. constructor; cbn; try constructor; intros; contradiction. Qed.

(* the boolean the checker evaluates on the node's own state is this invariant *)
Lemma nodupN_NoDup l : nodupN l = true <-> NoDup l.
Proof.
  induction l as [|a l IH]; cbn [nodupN]; [split; [constructor|reflexivity]|].
  rewrite andb_true_iff, negb_true_iff, memN_notIn, IH. split.
  - intros [H1 H2]. now constructor.
  - intros H. inversion H; subst. now split.
Qed.

Lemma inv_b_Inv s : inv_b s = true <-> Inv s.
Proof.
  unfold inv_b. rewrite !andb_true_iff, !nodupN_NoDup, !forallb_forall. split.
  - intros ((((H1 & H2) & H3) & H4) & H5). constructor; try assumption.
    + intros t c Hin. apply memN_In. exact (H3 _ Hin).
    + intros t c Hin. specialize (H4 _ Hin). cbn [fst] in H4.
      destruct (find_put t (puts s)) as [p|] eqn:F; [|discriminate]. exists p. now apply find_put_some.
    + intros p Hp. specialize (H5 _ Hp). apply orb_true_iff in H5 as [H5|H5]; [now left|right; now apply memN_In].
  - intros [H1 H2 H3 H4 H5]. repeat split; try assumption.
    + intros [t c] Hin. apply memN_In. cbn [fst]. exact (H3 _ _ Hin).
    + intros [t c] Hin. cbn [fst]. destruct (H4 _ _ Hin) as (p & Hp & E).
      destruct (find_put t (puts s)) eqn:F; [reflexivity|]. exfalso. exact (find_put_none _ _ F p Hp E).
    + intros p Hp. apply orb_true_iff. destruct (H5 _ Hp) as [H|H]; [now left|right; now apply memN_In].
Qed.

Lemma inv_lookup s t : Inv s -> Inv (step_lookup s t).
Proof.
  intros [H1 H2 H3 H4 H5]. constructor; cbn [step_lookup lookups puts gsend psend]; try assumption.
  - now apply add_lookup_nodup.
  - intros t' c Hin. apply add_lookup_in. right. eauto.
  - intros p Hp. destruct (H5 p Hp) as [H|H]; [now left|right]. apply add_lookup_in. now right.
Qed.

Lemma inv_get s t c : Inv s -> Inv (step_get s t c).
Proof.
  intros [H1 H2 H3 H4 H5]. constructor; cbn [step_get lookups puts gsend psend]; try assumption.
  - now apply add_lookup_nodup.
  - intros t' c' [E|Hin]; apply add_lookup_in; [injection E as -> _; now left|right; eauto].
  - intros p Hp. destruct (H5 p Hp) as [H|H]; [now left|right]. apply add_lookup_in. now right.
Qed.

Lemma inv_put_continue s ps t c m cached : Inv s ->
  NoDup (map pe_target ps) -> (forall p, In p ps -> In p (puts s)) ->
  (forall p, In p (puts s) -> pe_target p <> t -> In p ps) ->
  Inv (put_continue s ps t c m cached).
Proof.
  intros [H1 H2 H3 H4 H5] N Sub Sup. unfold put_continue.
  destruct cached; constructor; cbn [lookups puts gsend psend]; try assumption.
  - now apply insert_put_nodup.
  - intros t' c' [E|Hin].
    + injection E as <- _. eexists. split; [apply insert_put_in; left; reflexivity|reflexivity].
    + destruct (H4 _ _ Hin) as (p & Hp & Ep). destruct (N.eq_dec t' t) as [->|NE].
      * eexists. split; [apply insert_put_in; left; reflexivity|reflexivity].
      * exists p. split; [|exact Ep]. apply insert_put_in. right. cbn [pe_target]. split; [apply Sup; congruence|congruence].
  - intros p Hp. apply insert_put_in in Hp as [->|[Hp _]]; [now left|]. apply H5. now apply Sub.
  - now apply add_lookup_nodup.
  - now apply insert_put_nodup.
  - intros t' c' Hin. apply add_lookup_in. right. eauto.
  - intros t' c' [E|Hin].
    + injection E as <- _. eexists. split; [apply insert_put_in; left; reflexivity|reflexivity].
    + destruct (H4 _ _ Hin) as (p & Hp & Ep). destruct (N.eq_dec t' t) as [->|NE].
      * eexists. split; [apply insert_put_in; left; reflexivity|reflexivity].
      * exists p. split; [|exact Ep]. apply insert_put_in. right. cbn [pe_target]. split; [apply Sup; congruence|congruence].
  - intros p Hp. apply insert_put_in in Hp as [->|[Hp _]].
    + right. cbn [pe_target]. apply add_lookup_in. now left.
    + destruct (H5 p (Sub p Hp)) as [H|H]; [now left|right]. apply add_lookup_in. now right.
Qed.

Lemma inv_put s t c m cached : Inv s -> Inv (fst (step_put s t c m cached)).
Proof.
  intros I. unfold step_put.
  assert (A: Inv (put_continue s (puts s) t c m cached)).
  { apply inv_put_continue; auto. apply (i_np s I). }
  destruct m as [req|]; [|exact A].
  destruct (check_concurrency _ req); cbn [fst]; [| |exact I].
  { destruct (find_put t (puts s)) as [p|] eqn:F; [|exact A].
    destruct (pe_mut p) as [inf|]; [|exact A].
    destruct (bytes_eqb (mp_sig req) (mp_sig inf)); cbn [fst]; [|exact A].
    destruct I as [H1 H2 H3 H4 H5]. constructor; cbn [park_put lookups puts gsend psend]; try assumption.
    intros t' c' [E|Hin]; [|eauto]. injection E as <- _. exists p. now apply find_put_some. }
  apply inv_put_continue; [exact I| | |].
  - unfold remove_put. apply NoDup_map_filter. apply (i_np s I).
  - intros p Hp. now apply remove_put_in in Hp.
  - intros p Hp Ne. now apply remove_put_in.
Qed.

Lemma inv_tick s dput dget : Inv s -> Inv (fst (step_tick s dput dget)).
Proof.
  intros [H1 H2 H3 H4 H5]. unfold step_tick.
  pose proof (start_puts_targets dget (puts s)) as T.
  pose proof (start_puts_unstarted dget (puts s)) as U.
  pose proof (start_puts_waiting dget (puts s)) as W.
  destruct (start_puts dget (puts s)) as [ps1 extra]. cbn [fst snd] in T, U, W.
  unfold release_gets.
  pose proof (release_puts_fst (dput ++ extra) (psend s)) as RF.
  destruct (release_puts (dput ++ extra) (psend s)) as [pss' pout]. cbn [fst] in RF. subst pss'.
  cbn [fst]. constructor; cbn [lookups puts gsend psend].
  - now apply NoDup_filter.
  - apply NoDup_map_filter. now rewrite T.
  - intros t c Hin. apply filter_In in Hin as [Hin Hn]. cbn [fst] in Hn. apply filter_In. split; [eauto|exact Hn].
  - intros t c Hin. apply filter_In in Hin as [Hin Hn]. cbn [fst] in Hn.
    destruct (H4 _ _ Hin) as (p & Hp & Ep).
    assert (Ht: In t (map pe_target ps1)) by (rewrite T; apply in_map_iff; now exists p).
    apply in_map_iff in Ht as (p' & Ep' & Hp'). exists p'. split; [|exact Ep'].
    apply filter_In. split; [exact Hp'|]. now rewrite Ep'.
  - intros p Hp. apply filter_In in Hp as [Hp Hn].
    destruct (pe_started p) eqn:S; [now left|right].
    pose proof (U p Hp S) as Hp0. destruct (H5 p Hp0) as [X|X]; [congruence|].
    apply filter_In. split; [exact X|]. apply negb_true_iff, memN_notIn. intros Hd.
    destruct (W p H2 Hp0 S Hd) as [(p' & Hp' & Et & St)|Hex].
    + assert (p' = p) by (apply (nodup_target_eq ps1); [now rewrite T|exact Hp'|exact Hp|exact Et]). congruence.
    + apply negb_true_iff, memN_notIn in Hn. apply Hn. rewrite map_app. apply in_or_app. right.
      apply in_map_iff. now exists (pe_target p, OutErr ENoClosestNodes).
Qed.

Theorem inv_step s e : Inv s -> Inv (fst (cstep s e)).
Proof.
  intros I. destruct e as [t|t c|t c m cached|dput dget]; cbn [cstep fst].
  - now apply inv_lookup.
  - now apply inv_get.
  - now apply inv_put.
  - now apply inv_tick.
Qed.

Theorem inv_run evs : forall s, Inv s -> Inv (fst (crun s evs)).
Proof.
  induction evs as [|e r IH]; intros s I; [exact I|]. cbn [crun].
  pose proof (inv_step s e I) as I1. destruct (cstep s e) as [s1 o1]. cbn [fst] in I1.
  specialize (IH s1 I1). destruct (crun s1 r) as [s2 o2]. exact IH.
Qed.

(* ---------- conservation of callers ---------- *)
Lemma step_conserves s e :
  Permutation (ev_callers e ++ parked s) (parked (fst (cstep s e)) ++ map oc_caller (snd (cstep s e))).
Proof.
  destruct e as [t|t c|t c m cached|dput dget]; cbn [cstep fst snd ev_callers app].
  - unfold parked. cbn. now rewrite app_nil_r.
  - unfold parked. cbn. now rewrite app_nil_r.
  - assert (A: forall ps, Permutation (c :: parked s) (parked (put_continue s ps t c m cached) ++ [])).
    { intros ps. rewrite app_nil_r. unfold put_continue, parked. destruct cached; cbn [gsend psend map snd]; apply Permutation_middle. }
    unfold step_put. destruct m as [req|]; [|apply A].
    destruct (check_concurrency _ req); cbn [fst snd map oc_caller]; [|apply A|apply Permutation_cons_append].
    destruct (match find_put t (puts s) with Some p => pe_mut p | None => None end) as [inf|]; [|apply A].
    destruct (bytes_eqb (mp_sig req) (mp_sig inf)); cbn [fst snd map]; [|apply A].
    rewrite app_nil_r. unfold park_put, parked. cbn [gsend psend map snd]. apply Permutation_middle.
  - unfold step_tick. destruct (start_puts dget (puts s)) as [ps1 extra]. unfold release_gets.
    pose proof (release_puts_perm (dput ++ extra) (psend s)) as PP.
    destruct (release_puts (dput ++ extra) (psend s)) as [pss' pout]. cbn [fst snd] in *.
    unfold parked. cbn [gsend psend]. rewrite map_app, map_map. cbn [oc_caller].
    pose proof (filter_perm (fun e : N * N => memN (fst e) (map fst dget)) (gsend s)) as PG.
    apply (Permutation_map snd) in PG. rewrite map_app in PG.
    rewrite PG, PP. rewrite <- !app_assoc. apply Permutation_app_head.
    rewrite !app_assoc. apply Permutation_app_tail. apply Permutation_app_comm.
Qed.

Definition run_callers (evs : list cev) : list N := flat_map ev_callers evs.

Theorem run_conserves evs : forall s,
  Permutation (run_callers evs ++ parked s) (parked (fst (crun s evs)) ++ map oc_caller (snd (crun s evs))).
Proof.
  induction evs as [|e r IH]; intros s; cbn [crun run_callers flat_map]; [cbn; now rewrite app_nil_r|].
  pose proof (step_conserves s e) as P1. destruct (cstep s e) as [s1 o1]. cbn [fst snd] in P1.
  specialize (IH s1). destruct (crun s1 r) as [s2 o2]. cbn [fst snd] in *.
  fold (run_callers r). rewrite map_app.
  rewrite <- app_assoc. rewrite (Permutation_app_comm (ev_callers e)). rewrite <- app_assoc.
  rewrite (Permutation_app_comm (parked s)). rewrite P1.
  rewrite app_assoc. rewrite IH. rewrite <- !app_assoc. apply Permutation_app_head. apply Permutation_app_comm.
Qed.

(* callers are distinct (every API call has its own channel): nobody is told twice, nobody who was told
   is still parked, and whoever called is parked or was told *)
Theorem at_most_one_outcome evs : NoDup (run_callers evs) ->
  let '(s, outs) := crun cstate0 evs in
  NoDup (parked s ++ map oc_caller outs) /\ (forall c, In c (run_callers evs) <-> In c (parked s) \/ In c (map oc_caller outs)).
Proof.
  intros N. pose proof (run_conserves evs cstate0) as P. destruct (crun cstate0 evs) as [s outs]. cbn [fst snd] in P.
  unfold parked at 1 in P. cbn [cstate0 gsend psend map app] in P. rewrite app_nil_r in P. split.
  - eapply Permutation_NoDup; eassumption.
  - intros c. rewrite <- in_app_iff. split; intros H.
    + eapply Permutation_in; eassumption.
    + eapply Permutation_in; [apply Permutation_sym|]; eassumption.
Qed.

(* ---------- quiescence ---------- *)
Theorem quiescent_nobody_parked s : Inv s -> lookups s = [] -> puts s = [] -> parked s = [].
Proof.
  intros I L P. unfold parked.
  destruct (gsend s) as [|[t c] g] eqn:G.
  - destruct (psend s) as [|[t c] p] eqn:Ps; [reflexivity|].
    destruct (i_p s I t c) as (q & Hq & _); [rewrite Ps; now left|]. rewrite P in Hq. destruct Hq.
  - pose proof (i_g s I t c) as H. rewrite G, L in H. destruct H. now left.
Qed.

Theorem exactly_one_outcome_when_quiet evs : NoDup (run_callers evs) ->
  let '(s, outs) := crun cstate0 evs in
  lookups s = [] -> puts s = [] -> Permutation (run_callers evs) (map oc_caller outs).
Proof.
  intros N. pose proof (run_conserves evs cstate0) as P. pose proof (inv_run evs cstate0 inv0) as I.
  destruct (crun cstate0 evs) as [s outs]. cbn [fst snd] in *. intros L Pu.
  rewrite (quiescent_nobody_parked s I L Pu) in P.
  unfold parked in P. cbn [cstate0 gsend psend map app] in P. now rewrite app_nil_r in P.
Qed.

(* with no lookup left every remaining put has started (its completion is PutQuery's business) *)
Theorem no_lookup_all_puts_started s : Inv s -> lookups s = [] -> forall p, In p (puts s) -> pe_started p = true.
Proof. intros I L p Hp. destruct (i_w s I p Hp) as [H|H]; [exact H|]. rewrite L in H. destruct H. Qed.

(* ---------- progress ---------- *)
(* the tick that finds a lookup done tells every get caller parked on it *)
Theorem tick_tells_get_callers s dput dget t c : In (t, c) (gsend s) -> In t (map fst dget) ->
  In (OGet c) (snd (step_tick s dput dget)).
Proof.
  intros Hin Ht. unfold step_tick. destruct (start_puts dget (puts s)) as [ps1 extra]. unfold release_gets.
  destruct (release_puts (dput ++ extra) (psend s)) as [pss' pout]. cbn [snd]. apply in_or_app. left.
  apply in_map_iff. exists (t, c). split; [reflexivity|]. apply filter_In. split; [exact Hin|]. now apply memN_In.
Qed.

(* the tick that finds a put done tells every caller parked on it *)
Theorem tick_tells_put_callers s dput dget t c : In (t, c) (psend s) -> In t (map fst dput) ->
  exists r, In (OPut c r) (snd (step_tick s dput dget)).
Proof.
  intros Hin Ht. unfold step_tick. destruct (start_puts dget (puts s)) as [ps1 extra]. unfold release_gets.
  destruct (release_puts_told (dput ++ extra) (psend s) t c Hin) as (r & Hr).
  { rewrite map_app. apply in_or_app. now left. }
  destruct (release_puts (dput ++ extra) (psend s)) as [pss' pout]. cbn [snd] in *. exists r. apply in_or_app. now right.
Qed.

(* the tick that finds the lookup of a waiting put done starts the put, or tells its callers *)
Theorem tick_starts_or_fails_waiting_put s dput dget p c : Inv s -> In p (puts s) -> pe_started p = false ->
  In (pe_target p, c) (psend s) -> In (pe_target p) (map fst dget) ->
  (exists p', In p' (puts (fst (step_tick s dput dget))) /\ pe_target p' = pe_target p /\ pe_started p' = true)
  \/ exists r, In (OPut c r) (snd (step_tick s dput dget)).
Proof.
  intros I Hp S Hc Hd. unfold step_tick.
  pose proof (start_puts_waiting dget (puts s) p (i_np s I) Hp S Hd) as W.
  destruct (start_puts dget (puts s)) as [ps1 extra]. cbn [fst snd] in W. unfold release_gets.
  pose proof (release_puts_told (dput ++ extra) (psend s) (pe_target p) c Hc) as RT.
  destruct (release_puts (dput ++ extra) (psend s)) as [pss' pout]. cbn [fst snd puts] in *.
  destruct (memN (pe_target p) (map fst (dput ++ extra))) eqn:M.
  - right. apply memN_In in M. destruct (RT M) as (r & Hr). exists r. apply in_or_app. now right.
  - destruct W as [(p' & Hp' & Et & St)|Hex].
    + left. exists p'. split; [|now split]. apply filter_In. split; [exact Hp'|]. now rewrite Et, M.
    + exfalso. apply memN_notIn in M. apply M. rewrite map_app. apply in_or_app. right.
      apply in_map_iff. now exists (pe_target p, OutErr ENoClosestNodes).
Qed.

(* what an API call leaves behind: a get caller is parked on a lookup that is now active; a put caller was
   told at once (concurrency error) or is parked on a put that is now active *)
Theorem get_parks_on_active_lookup s t c : In (t, c) (gsend (step_get s t c)) /\ In t (lookups (step_get s t c)).
Proof. split; cbn; [now left|apply add_lookup_in; now left]. Qed.

Theorem put_told_or_parked s t c m cached :
  (exists e, snd (step_put s t c m cached) = [OPut c (OutErr (EConcurrency e))] /\ fst (step_put s t c m cached) = s)
  \/ (snd (step_put s t c m cached) = [] /\ In (t, c) (psend (fst (step_put s t c m cached)))
      /\ exists p, In p (puts (fst (step_put s t c m cached))) /\ pe_target p = t).
Proof.
  assert (A: forall ps, In (t, c) (psend (put_continue s ps t c m cached))
             /\ exists p, In p (puts (put_continue s ps t c m cached)) /\ pe_target p = t).
  { intros ps. unfold put_continue. destruct cached; cbn [psend puts]; (split; [now left|]);
      eexists; (split; [apply insert_put_in; left; reflexivity|reflexivity]). }
  unfold step_put. destruct m as [req|]; [|right; split; [reflexivity|apply A]].
  destruct (check_concurrency _ req) as [| |e]; cbn [fst snd].
  - destruct (find_put t (puts s)) as [p|] eqn:F; [|right; split; [reflexivity|apply A]].
    destruct (pe_mut p) as [inf|]; [|right; split; [reflexivity|apply A]].
    destruct (bytes_eqb (mp_sig req) (mp_sig inf)); cbn [fst snd]; [|right; split; [reflexivity|apply A]].
    right. split; [reflexivity|]. split; [cbn; now left|]. exists p. cbn [park_put puts]. now apply find_put_some.
  - right. split; [reflexivity|apply A].
  - left. exists e. now split.
Qed.

(* ---- a lookup of a put's target that ends while the put is in its store phase is no business of the put: the put
   stays where it is and nobody parked on it is told anything, whatever the lookup found (tokens or none) ---- *)
Lemma filter_all_true {A} (f : A -> bool) l : (forall x, In x l -> f x = true) -> filter f l = l.
Proof.
  induction l as [|x l IH]; intros H; [reflexivity|]. cbn [filter]. rewrite (H x (or_introl eq_refl)).
  f_equal. apply IH. intros y Hy. apply H. now right.
Qed.

Theorem started_put_ignores_a_finished_lookup s t ok p :
  find_put t (puts s) = Some p -> pe_started p = true ->
  let r := step_tick s [] [(t, ok)] in
  puts (fst r) = puts s /\ psend (fst r) = psend s /\ forall c o, ~ In (OPut c o) (snd r).
Proof.
  intros Hf Hs. unfold step_tick. cbn [start_puts]. rewrite Hf, Hs. cbn [app map fst release_puts].
  cbn [fst snd]. repeat split.
  - apply filter_all_true. intros x _. reflexivity.
  - intros c o Hin. unfold release_gets in Hin. cbn [snd] in Hin. apply in_app_or in Hin as [Hin|[]].
    apply in_map_iff in Hin as (e & He & _). discriminate He.
Qed.
