(* RTableProofs.v — lemmas behind properties/C12.v (and the routing-table part of C11). *)
From Coq Require Import Lia Sorted Permutation.
From MLV Require Import gen.Params model.Bytes model.Crc32c model.Id model.Node model.BSearch model.Closest model.RTable
  proofs.BSearchProofs proofs.ClosestProofs proofs.IdProofs.
Open Scope N_scope.

Definition bucket_of (t : rtable) (d : N) : list node :=
  match bk_get d (rbuckets t) with Some b => b | None => [] end.

Definition keys (bs : list (N * list node)) : list N := map fst bs.

(* ---------- association list ---------- *)
Lemma bk_get_set_same d b bs : bk_get d (bk_set d b bs) = Some b.
Proof.
  induction bs as [|[k b0] r IH]; cbn [bk_set bk_get]; [now rewrite N.eqb_refl|].
  destruct (N.eqb_spec k d) as [->|Hk]; cbn [bk_get]; [now rewrite N.eqb_refl|].
  destruct (N.ltb_spec d k); cbn [bk_get]; [now rewrite N.eqb_refl|].
  destruct (N.eqb_spec k d); [contradiction|exact IH].
Qed.

Lemma bk_get_set_other d d' b bs : d' <> d -> bk_get d' (bk_set d b bs) = bk_get d' bs.
Proof.
  intros Hd. induction bs as [|[k b0] r IH]; cbn [bk_set bk_get].
  - destruct (N.eqb_spec d d'); [congruence|reflexivity].
  - destruct (N.eqb_spec k d) as [->|Hk]; cbn [bk_get].
    + destruct (N.eqb_spec d d'); [congruence|reflexivity].
    + destruct (N.ltb_spec d k); cbn [bk_get].
      * destruct (N.eqb_spec d d'); [congruence|reflexivity].
      * now rewrite IH.
Qed.

Lemma bk_get_in d b bs : bk_get d bs = Some b -> In (d, b) bs.
Proof.
  induction bs as [|[k b0] r IH]; cbn [bk_get]; [discriminate|].
  destruct (N.eqb_spec k d) as [->|Hk]; intros H; [injection H as ->; now left|right; now apply IH].
Qed.

Lemma bk_in_get d b bs : StronglySorted N.lt (keys bs) -> In (d, b) bs -> bk_get d bs = Some b.
Proof.
  induction bs as [|[k b0] r IH]; intros S H; [destruct H|].
  cbn [keys map fst] in S. inversion S as [|? ? S' F]; subst. cbn [bk_get].
  destruct H as [E|H].
  - injection E as -> ->. now rewrite N.eqb_refl.
  - destruct (N.eqb_spec k d) as [->|Hk].
    + exfalso. rewrite Forall_forall in F. assert (d < d) by (apply F; change d with (fst (d, b)); now apply in_map). lia.
    + now apply IH.
Qed.

Lemma keys_bk_set d b bs : forall x, In x (keys (bk_set d b bs)) <-> x = d \/ In x (keys bs).
Proof.
  induction bs as [|[k b0] r IH]; intros x; cbn [bk_set keys map fst]; [cbn; intuition congruence|].
  destruct (N.eqb_spec k d) as [->|Hk]; cbn [map fst]; [cbn; intuition congruence|].
  destruct (N.ltb_spec d k); cbn [map fst]; [cbn; intuition congruence|].
  fold (keys (bk_set d b r)). fold (keys r). cbn [In]. rewrite IH. intuition congruence.
Qed.

Lemma bk_set_sorted d b bs : StronglySorted N.lt (keys bs) -> StronglySorted N.lt (keys (bk_set d b bs)).
Proof.
  induction bs as [|[k b0] r IH]; intros S; cbn [bk_set keys map fst]; [repeat constructor|].
  cbn [keys map fst] in S. inversion S as [|? ? S' F]; subst.
  destruct (N.eqb_spec k d) as [->|Hk]; cbn [map fst]; [now constructor|].
  destruct (N.ltb_spec d k); cbn [map fst].
  - constructor; [now constructor|]. constructor; [assumption|].
    rewrite Forall_forall in *. intros x Hx. specialize (F x Hx). lia.
  - constructor; [now apply IH|]. rewrite Forall_forall in *. intros x Hx.
    apply keys_bk_set in Hx. destruct Hx as [->|Hx]; [lia|now apply F].
Qed.

(* ---------- buckets ---------- *)
Lemma find_index_some {A} (p : A -> bool) l : forall k idx, find_index p l k = Some idx ->
  exists e, nth_error l (idx - k) = Some e /\ p e = true /\ (k <= idx)%nat.
Proof.
  induction l as [|x l IH]; intros k idx; cbn [find_index]; [discriminate|].
  destruct (p x) eqn:E.
  - intros H. injection H as <-. exists x. rewrite Nat.sub_diag. auto.
  - intros H. destruct (IH _ _ H) as (e & He & Hp & Hk). exists e.
    replace (idx - k)%nat with (S (idx - S k)) by lia. cbn. split; [assumption|split; [assumption|lia]].
Qed.

Lemma find_index_none {A} (p : A -> bool) l : forall k, find_index p l k = None -> forall x, In x l -> p x = false.
Proof.
  induction l as [|y l IH]; intros k H x Hx; [destruct Hx|]. cbn [find_index] in H.
  destruct (p y) eqn:E; [discriminate|]. destruct Hx as [->|Hx]; [assumption|eapply IH; eassumption].
Qed.

Lemma in_remove_nth {A} (l : list A) : forall k x, In x (remove_nth k l) -> In x l.
Proof.
  induction l as [|y l IH]; intros [|k] x; cbn [remove_nth].
  - tauto.
  - tauto.
  - intros H. now right.
  - intros [->|H]; [now left|right; eapply IH; eassumption].
Qed.

Lemma remove_nth_length {A} (l : list A) : forall k e, nth_error l k = Some e -> S (length (remove_nth k l)) = length l.
Proof.
  induction l as [|y l IH]; intros [|k] e; cbn; try discriminate; [reflexivity|]. intros H. now rewrite (IH _ _ H).
Qed.

Lemma remove_nth_other {A} (l : list A) : forall k e x, nth_error l k = Some e -> In x l -> x <> e -> In x (remove_nth k l).
Proof.
  induction l as [|y l IH]; intros [|k] e x; cbn; try discriminate.
  - intros H. injection H as ->. intros [->|Hx] Hne; [congruence|assumption].
  - intros H [->|Hx] Hne; [now left|right; eapply IH; eassumption].
Qed.

Lemma remove_nth_nodup (l : list node) : forall k e, nth_error l k = Some e -> NoDup (map nid l) ->
  NoDup (map nid (remove_nth k l)) /\ ~ In (nid e) (map nid (remove_nth k l)).
Proof.
  induction l as [|y l IH]; intros [|k] e; cbn; try discriminate.
  - intros H ND. injection H as ->. inversion ND; subst. split; assumption.
  - intros H ND. inversion ND as [|? ? Hy ND']; subst. destruct (IH _ _ H ND') as [N1 N2]. split.
    + constructor; [|assumption]. intros Hin. apply Hy. apply in_map_iff in Hin. destruct Hin as (x & Ex & Hx).
      apply in_map_iff. exists x. split; [assumption|]. eapply in_remove_nth; eassumption.
    + intros [E|Hin]; [|contradiction]. apply Hy. rewrite E. apply in_map. eapply nth_error_In; eassumption.
Qed.

Lemma nodup_app_one (l : list node) n : NoDup (map nid l) -> ~ In (nid n) (map nid l) -> NoDup (map nid (l ++ [n])).
Proof.
  induction l as [|e l IH]; cbn; intros H Hn; [repeat constructor; tauto|].
  inversion H; subst. constructor.
  - rewrite map_app, in_app_iff. cbn. intros [E|[E|[]]]; [tauto|]. apply Hn. now left.
  - apply IH; [assumption|]. intros E. apply Hn. now right.
Qed.

Lemma bytes_eqb_iff a b : bytes_eqb a b = true <-> a = b.
Proof. split; [apply bytes_eqb_true|]. intros ->. induction b as [|x b IH]; [reflexivity|]. cbn. now rewrite N.eqb_refl. Qed.

Lemma bucket_add_spec now b n b' r : bucket_add now b n = (b', r) ->
  (forall x, In x b' -> x = n \/ In x b) /\
  (NoDup (map nid b) -> NoDup (map nid b')) /\
  (length b <= K -> length b' <= K)%nat.
Proof.
  unfold bucket_add. destruct (find_index _ b 0) as [idx|] eqn:F.
  - destruct (find_index_some _ _ _ _ F) as (e & He & Hp & _). rewrite Nat.sub_0_r in He. rewrite He.
    apply bytes_eqb_iff in Hp.
    destruct (nsec n || (negb (nsec e) && same_ip e n)); intros E; inversion E; subst; clear E; [|auto].
    repeat split.
    + intros x Hx. apply in_app_or in Hx. destruct Hx as [Hx|[Hx|[]]]; [right; eapply in_remove_nth; eassumption|now left].
    + intros ND. destruct (remove_nth_nodup _ _ _ He ND) as [N1 N2]. apply nodup_app_one; [assumption|]. now rewrite <- Hp.
    + intros L. rewrite app_length. cbn [length]. pose proof (remove_nth_length _ _ _ He). lia.
  - pose proof (find_index_none _ _ _ F) as Hnot.
    assert (Hnid: ~ In (nid n) (map nid b)).
    { intros Hin. apply in_map_iff in Hin. destruct Hin as (x & Ex & Hx). specialize (Hnot x Hx). cbn in Hnot.
      rewrite Ex in Hnot. assert (bytes_eqb (nid n) (nid n) = true) by now apply bytes_eqb_iff. congruence. }
    destruct (Nat.ltb_spec (length b) K).
    + intros E; inversion E; subst; clear E. repeat split.
      * intros x Hx. apply in_app_or in Hx. destruct Hx as [Hx|[Hx|[]]]; auto.
      * intros ND. now apply nodup_app_one.
      * intros _. rewrite app_length. cbn [length]. lia.
    + destruct b as [|h t].
      * intros E; inversion E; subst. repeat split; auto.
      * destruct (is_stale now h); intros E; inversion E; subst; clear E; [|auto].
        repeat split.
        -- intros x Hx. apply in_app_or in Hx. destruct Hx as [Hx|[Hx|[]]]; [right; now right|now left].
        -- intros ND. cbn in ND. inversion ND; subst. apply nodup_app_one; [assumption|]. intros Hin. apply Hnid. now right.
        -- intros L. rewrite app_length. cbn [length] in *. lia.
Qed.

(* a node that disappears from a bucket has the incoming id, or is the stale head of a full bucket *)
Lemma bucket_add_evicts now b n b' r m : bucket_add now b n = (b', r) -> In m b -> ~ In m b' ->
  nid m = nid n \/ (is_stale now m = true /\ exists t, b = m :: t /\ (K <= length b)%nat).
Proof.
  unfold bucket_add. destruct (find_index _ b 0) as [idx|] eqn:F.
  - destruct (find_index_some _ _ _ _ F) as (e & He & Hp & _). rewrite Nat.sub_0_r in He. rewrite He.
    apply bytes_eqb_iff in Hp.
    destruct (nsec n || (negb (nsec e) && same_ip e n)); intros E; inversion E; subst; clear E; [|tauto].
    intros Hm Hnot. left. rewrite <- Hp.
    destruct (list_eq_dec N.eq_dec (nid m) (nid e)) as [Eq|Ne]; [assumption|].
    exfalso. apply Hnot. apply in_or_app. left. eapply remove_nth_other; [eassumption|assumption|congruence].
  - destruct (Nat.ltb_spec (length b) K).
    + intros E; inversion E; subst. intros Hm Hnot. exfalso. apply Hnot. apply in_or_app. now left.
    + destruct b as [|h t]; [intros E; inversion E; subst; tauto|].
      destruct (is_stale now h) eqn:S; intros E; inversion E; subst; clear E; [|tauto].
      intros [->|Hm] Hnot.
      * right. split; [assumption|]. eauto.
      * exfalso. apply Hnot. apply in_or_app. now left.
Qed.

(* ---------- the invariant ---------- *)
Definition node_ok (n : node) : Prop := id_wf (nid n) = true.

Record Inv (t : rtable) : Prop := {
  inv_self : id_wf (rid t) = true;
  inv_keys : StronglySorted N.lt (keys (rbuckets t));
  inv_range : Forall (fun k => 1 <= k <= 160) (keys (rbuckets t));
  inv_place : forall d n, In n (bucket_of t d) -> distance (rid t) (nid n) = d /\ d <> 0 /\ node_ok n;
  inv_nodup : forall d, NoDup (map nid (bucket_of t d));
  inv_cap : forall d, (length (bucket_of t d) <= K)%nat;
  inv_ip : forall d1 d2 a b, In a (bucket_of t d1) -> In b (bucket_of t d2) -> nid a <> nid b -> nip a = nip b ->
             same_prefix a b = false /\ (nsec a = true \/ nsec b = true)
}.

Lemma in_values_bucket t n : StronglySorted N.lt (keys (rbuckets t)) ->
  (In n (rt_values t) <-> exists d, In n (bucket_of t d)).
Proof.
  intros S. unfold rt_values, bucket_of. rewrite in_flat_map. split.
  - intros ([d b] & Hdb & Hn). exists d. now rewrite (bk_in_get _ _ _ S Hdb).
  - intros (d & Hn). destruct (bk_get d (rbuckets t)) as [b|] eqn:E; [|destruct Hn].
    exists (d, b). split; [now apply bk_get_in|assumption].
Qed.

Lemma distance_le a b : distance a b <= 160.
Proof. unfold distance, MAX_DISTANCE. lia. Qed.

Lemma inv_new i : id_wf i = true -> Inv (rt_new i).
Proof.
  intros H. constructor; cbn; try assumption; try constructor; unfold bucket_of; cbn; intros; try tauto; try constructor.
  unfold K. lia.
Qed.

Lemma already_exists_false n l : already_exists n l = false -> forall e, In e l -> conflicts n e = false.
Proof.
  unfold already_exists. intros H e He. destruct (conflicts n e) eqn:E; [|reflexivity].
  assert (existsb (conflicts n) l = true) by (apply existsb_exists; eauto). congruence.
Qed.

Lemma bucket_of_set t d b d' :
  bucket_of {| rid := rid t; rbuckets := bk_set d b (rbuckets t) |} d' = if d' =? d then b else bucket_of t d'.
Proof.
  unfold bucket_of. cbn [rbuckets]. destruct (N.eqb_spec d' d) as [->|Hd].
  - now rewrite bk_get_set_same.
  - now rewrite bk_get_set_other.
Qed.

Lemma same_prefix_sym a b : same_prefix a b = same_prefix b a.
Proof.
  unfold same_prefix. destruct (bytes_eqb (first_21_bits (nid a)) (first_21_bits (nid b))) eqn:E.
  - apply bytes_eqb_iff in E. symmetry. now apply bytes_eqb_iff.
  - destruct (bytes_eqb (first_21_bits (nid b)) (first_21_bits (nid a))) eqn:E'; [|reflexivity].
    apply bytes_eqb_iff in E'. assert (bytes_eqb (first_21_bits (nid a)) (first_21_bits (nid b)) = true) by now apply bytes_eqb_iff.
    congruence.
Qed.

Theorem rt_add_inv now t n t' r : Inv t -> node_ok n -> rt_add now t n = (t', r) -> Inv t'.
Proof.
  intros I Hok. unfold rt_add.
  destruct (N.eqb_spec (distance (rid t) (nid n)) 0) as [Z0|NZ]; [intros E; inversion E; now subst|].
  destruct (existsb _ (rbuckets t)) eqn:AE; [intros E; inversion E; now subst|].
  set (d := distance (rid t) (nid n)) in *.
  fold (bucket_of t d).
  destruct (bucket_add now (bucket_of t d) n) as [b' r'] eqn:BA. intros E; inversion E; subst t' r; clear E.
  destruct (bucket_add_spec _ _ _ _ _ BA) as (Hin & Hnd & Hlen).
  set (t' := {| rid := rid t; rbuckets := bk_set d b' (rbuckets t) |}).
  assert (Hold: forall d' x, In x (bucket_of t' d') -> (x = n /\ d' = d) \/ In x (bucket_of t d')).
  { intros d' x. unfold t'. rewrite bucket_of_set. destruct (N.eqb_spec d' d) as [->|]; [|auto].
    intros Hx. destruct (Hin _ Hx); auto. }
  assert (Hconf: forall d' e, In e (bucket_of t d') -> nid e <> nid n -> conflicts n e = false).
  { intros d' e He Hne. unfold bucket_of in He. destruct (bk_get d' (rbuckets t)) as [b|] eqn:G; [|destruct He].
    apply bk_get_in in G.
    set (others := fun l : list node => filter (fun e => negb (bytes_eqb (nid e) (nid n))) l) in *.
    assert (already_exists n (others b) = false).
    { destruct (already_exists n (others b)) eqn:Y; [|reflexivity].
      assert (existsb (fun kb => already_exists n (others (snd kb))) (rbuckets t) = true) by (apply existsb_exists; exists (d', b); auto).
      congruence. }
    eapply already_exists_false; [eassumption|]. unfold others. apply filter_In. split; [assumption|].
    apply negb_true_iff. destruct (bytes_eqb (nid e) (nid n)) eqn:E; [|reflexivity]. apply bytes_eqb_iff in E. contradiction. }
  constructor.
  - exact (inv_self t I).
  - unfold t'. cbn [rbuckets]. apply bk_set_sorted. exact (inv_keys t I).
  - unfold t'. cbn [rbuckets]. rewrite Forall_forall. intros x Hx. apply keys_bk_set in Hx.
    destruct Hx as [->|Hx].
    + pose proof (distance_le (rid t) (nid n)). fold d in H. lia.
    + pose proof (inv_range t I) as R. rewrite Forall_forall in R. now apply R.
  - intros d' x Hx. destruct (Hold _ _ Hx) as [[-> ->]|Hx']; [repeat split; auto|].
    apply (inv_place t I _ _ Hx').
  - intros d'. unfold t'. rewrite bucket_of_set. destruct (N.eqb_spec d' d); [apply Hnd|]; apply (inv_nodup t I).
  - intros d'. unfold t'. rewrite bucket_of_set. destruct (N.eqb_spec d' d); [apply Hlen|]; apply (inv_cap t I).
  - intros d1 d2 a b Ha Hb Hid Hip.
    destruct (Hold _ _ Ha) as [[-> _]|Ha']; destruct (Hold _ _ Hb) as [[-> _]|Hb'].
    + congruence.
    + assert (Hne: nid b <> nid n) by congruence.
      pose proof (Hconf _ _ Hb' Hne) as C. unfold conflicts, same_ip in C. rewrite Hip, N.eqb_refl in C. cbn in C.
      apply orb_false_iff in C. destruct C as (C1 & C2). apply negb_false_iff in C1. auto.
    + assert (Hne: nid a <> nid n) by congruence.
      pose proof (Hconf _ _ Ha' Hne) as C. unfold conflicts, same_ip in C. rewrite <- Hip, N.eqb_refl in C. cbn in C.
      apply orb_false_iff in C. destruct C as (C1 & C2). apply negb_false_iff in C1. rewrite same_prefix_sym. auto.
    + apply (inv_ip t I _ _ _ _ Ha' Hb' Hid Hip).
Qed.

Lemma in_filter_sub {A} (p : A -> bool) l x : In x (filter p l) -> In x l.
Proof. rewrite filter_In. tauto. Qed.

Lemma filter_nodup_ids p (l : list node) : NoDup (map nid l) -> NoDup (map nid (filter p l)).
Proof.
  induction l as [|x l IH]; cbn; [tauto|]. intros ND. inversion ND as [|? ? Hx ND']; subst.
  destruct (p x); cbn; [constructor|]; auto.
  intros Hin. apply Hx. apply in_map_iff in Hin. destruct Hin as (y & Ey & Hy). apply in_map_iff. exists y.
  split; [assumption|]. eapply in_filter_sub; eassumption.
Qed.

Lemma filter_length_le {A} (p : A -> bool) l : (length (filter p l) <= length l)%nat.
Proof. induction l as [|x l IH]; cbn; [lia|]. destruct (p x); cbn; lia. Qed.

Theorem rt_remove_inv t i : Inv t -> Inv (rt_remove t i).
Proof.
  intros I. unfold rt_remove. set (d := distance (rid t) i).
  destruct (bk_get d (rbuckets t)) as [b|] eqn:G; [|exact I].
  assert (Eb: bucket_of t d = b) by (unfold bucket_of; now rewrite G).
  set (t' := {| rid := rid t; rbuckets := bk_set d (bucket_remove b i) (rbuckets t) |}).
  assert (Hsub: forall d' x, In x (bucket_of t' d') -> In x (bucket_of t d')).
  { intros d' x. unfold t'. rewrite bucket_of_set. destruct (N.eqb_spec d' d) as [->|]; [|auto].
    rewrite Eb. unfold bucket_remove. apply in_filter_sub. }
  constructor.
  - exact (inv_self t I).
  - unfold t'. cbn [rbuckets]. apply bk_set_sorted. exact (inv_keys t I).
  - unfold t'. cbn [rbuckets]. rewrite Forall_forall. intros x Hx. apply keys_bk_set in Hx.
    pose proof (inv_range t I) as R. rewrite Forall_forall in R. destruct Hx as [->|Hx]; [|now apply R].
    apply R. apply bk_get_in in G. change d with (fst (d, b)). now apply in_map.
  - intros d' x Hx. apply (inv_place t I). now apply Hsub.
  - intros d'. unfold t'. rewrite bucket_of_set. destruct (N.eqb_spec d' d); [|apply (inv_nodup t I)].
    unfold bucket_remove. apply filter_nodup_ids. rewrite <- Eb. apply (inv_nodup t I).
  - intros d'. unfold t'. rewrite bucket_of_set. destruct (N.eqb_spec d' d); [|apply (inv_cap t I)].
    unfold bucket_remove. pose proof (filter_length_le (fun e => negb (bytes_eqb (nid e) i)) b).
    pose proof (inv_cap t I d). rewrite Eb in H0. lia.
  - intros d1 d2 a b0 Ha Hb. apply (inv_ip t I d1 d2); now apply Hsub.
Qed.

(* adding a sequence of nodes that are all ok *)
Lemma rt_adds_inv now ns : forall t, Inv t -> Forall node_ok ns ->
  Inv (fold_left (fun acc n => fst (rt_add now acc n)) ns t).
Proof.
  induction ns as [|n ns IH]; intros t I F; [exact I|]. inversion F; subst. cbn [fold_left]. apply IH; [|assumption].
  destruct (rt_add now t n) as [t' r] eqn:E. cbn. eapply rt_add_inv; eassumption.
Qed.

(* iteration order = BTreeMap order when keys are sorted and within 1..160 *)
Lemma bk_get_lt d bs : Forall (fun k => d < k) (keys bs) -> bk_get d bs = None.
Proof.
  induction bs as [|[k b] r IH]; intros F; [reflexivity|]. cbn [keys map fst] in F. inversion F; subst.
  cbn [bk_get]. destruct (N.eqb_spec k d); [lia|]. now apply IH.
Qed.

Lemma flat_map_ext_in' {A B} (f g : A -> list B) l : (forall a, In a l -> f a = g a) -> flat_map f l = flat_map g l.
Proof.
  induction l as [|x l IH]; intros H; [reflexivity|]. cbn [flat_map]. rewrite (H x) by now left.
  rewrite IH; [reflexivity|]. intros a Ha. apply H. now right.
Qed.

Lemma iter_values bs : forall n lo,
  StronglySorted N.lt (keys bs) -> Forall (fun k => N.of_nat lo <= k < N.of_nat (lo + n)) (keys bs) ->
  flat_map (fun d => match bk_get (N.of_nat d) bs with Some b => b | None => [] end) (seq lo n) = flat_map snd bs.
Proof.
  intros n. revert bs. induction n as [|n IH]; intros bs lo HS F.
  - destruct bs as [|[k b] r]; [reflexivity|]. cbn [keys map fst] in F. inversion F; subst. lia.
  - destruct bs as [|[k b] r].
    + cbn [flat_map]. clear. generalize (seq lo (S n)). intros l. induction l as [|x l IHl]; [reflexivity|]. cbn. exact IHl.
    + cbn [seq flat_map].
      cbn [keys map fst] in HS, F. inversion HS as [|? ? S' FS]; subst. inversion F as [|? ? Fk F']; subst.
      destruct (N.eq_dec k (N.of_nat lo)) as [->|Hk].
      * cbn [bk_get]. rewrite N.eqb_refl. cbn [flat_map snd]. f_equal.
        rewrite <- (IH r (S lo) S').
        -- apply flat_map_ext_in'. intros a Ha. apply in_seq in Ha. cbn [bk_get].
           destruct (N.eqb_spec (N.of_nat lo) (N.of_nat a)); [lia|reflexivity].
        -- rewrite Forall_forall in *. intros x Hx. specialize (FS x Hx). specialize (F' x Hx). lia.
      * assert (G: bk_get (N.of_nat lo) ((k, b) :: r) = None).
        { apply bk_get_lt. cbn [keys map fst]. constructor; [lia|]. rewrite Forall_forall in *. intros x Hx.
          specialize (FS x Hx). lia. }
        rewrite G. cbn [app]. rewrite (IH ((k, b) :: r) (S lo)); [reflexivity|now constructor|].
        cbn [keys map fst]. constructor; [lia|]. rewrite Forall_forall in *. intros x Hx. specialize (F' x Hx).
        specialize (FS x Hx). lia.
Qed.

Theorem rt_nodes_values t : Inv t -> rt_nodes t = rt_values t.
Proof.
  intros I. unfold rt_nodes, rt_values. apply iter_values; [exact (inv_keys t I)|].
  pose proof (inv_range t I) as R. rewrite Forall_forall in *. intros x Hx. specialize (R x Hx). cbn. lia.
Qed.

Theorem rt_reset_id_inv now t i : Inv t -> id_wf i = true -> Inv (rt_reset_id now t i).
Proof.
  intros I Hi. unfold rt_reset_id. apply rt_adds_inv; [now apply inv_new|].
  rewrite Forall_forall. intros n Hn. rewrite (rt_nodes_values t I) in Hn.
  apply (in_values_bucket t n (inv_keys t I)) in Hn. destruct Hn as (d & Hn). apply (inv_place t I _ _ Hn).
Qed.

(* ---------- derived facts ---------- *)
Lemma rt_size_length t : rt_size t = length (rt_values t).
Proof.
  unfold rt_size, rt_values.
  assert (G: forall (bs : list (N * list node)) acc, fold_left (fun a kb => (a + length (snd kb))%nat) bs acc = (acc + length (flat_map snd bs))%nat).
  { induction bs as [|[k b] r IH]; intros acc; cbn [fold_left flat_map snd]; [cbn [length]; lia|]. rewrite IH, app_length. lia. }
  rewrite G. lia.
Qed.

Lemma rt_is_empty_size t : rt_is_empty t = true <-> rt_size t = 0%nat.
Proof.
  rewrite rt_size_length. unfold rt_is_empty, rt_values.
  induction (rbuckets t) as [|[k b] r IH]; cbn [forallb flat_map snd].
  - split; reflexivity.
  - rewrite andb_true_iff, IH, app_length. destruct b as [|x b]; cbn [length].
    + split; [intros [_ H]; exact H|intros H; split; [reflexivity|exact H]].
    + split; [intros [H _]; discriminate|intros H; discriminate].
Qed.

Theorem rt_values_nodup t : Inv t -> NoDup (map nid (rt_values t)).
Proof.
  intros I. pose proof (inv_keys t I) as S.
  assert (P: forall d n, In n (bucket_of t d) -> distance (rid t) (nid n) = d) by (intros d n H; apply (inv_place t I _ _ H)).
  assert (ND: forall d, NoDup (map nid (bucket_of t d))) by apply (inv_nodup t I).
  unfold rt_values. unfold bucket_of in P, ND. revert S P ND. generalize (rbuckets t) as bs.
  induction bs as [|[k b] r IH]; intros S P ND; cbn [flat_map snd]; [constructor|].
  cbn [keys map fst] in S. inversion S as [|? ? S' FS]; subst.
  rewrite map_app. apply NoDup_app_iff || idtac.
  assert (Hb: NoDup (map nid b)) by (specialize (ND k); cbn [bk_get] in ND; now rewrite N.eqb_refl in ND).
  assert (Hr: NoDup (map nid (flat_map snd r))).
  { apply IH; [assumption| |].
    - intros d n Hn. apply P. cbn [bk_get]. destruct (N.eqb_spec k d) as [->|]; [|assumption].
      exfalso. destruct (bk_get d r) as [b0|] eqn:G; [|destruct Hn]. apply bk_get_in in G.
      rewrite Forall_forall in FS. assert (d < d) by (apply FS; change d with (fst (d, b0)); now apply in_map). lia.
    - intros d. specialize (ND d). cbn [bk_get] in ND. destruct (N.eqb_spec k d) as [->|]; [|assumption].
      rewrite bk_get_lt; [constructor|]. rewrite Forall_forall in *. intros x Hx. now apply FS. }
  clear IH.
  (* ids of b have distance k, ids of the rest have distance > k *)
  induction b as [|x b IHb]; [exact Hr|]. cbn [map app]. inversion Hb as [|? ? Hx Hb']; subst. constructor.
  - rewrite in_app_iff. intros [Hin|Hin]; [contradiction|].
    apply in_map_iff in Hin. destruct Hin as (y & Ey & Hy). apply in_flat_map in Hy. destruct Hy as ([k' b'] & Hkb & Hy).
    cbn [snd] in Hy.
    assert (Dx: distance (rid t) (nid x) = k) by (apply P; cbn [bk_get]; rewrite N.eqb_refl; now left).
    assert (Dy: distance (rid t) (nid y) = k').
    { apply P. cbn [bk_get]. rewrite Forall_forall in FS.
      assert (k < k') by (apply FS; change k' with (fst (k', b')); now apply in_map).
      destruct (N.eqb_spec k k'); [lia|]. now rewrite (bk_in_get _ _ _ S' Hkb). }
    rewrite Forall_forall in FS. assert (k < k') by (apply FS; change k' with (fst (k', b')); now apply in_map).
    rewrite Ey in Dy. lia.
  - apply IHb; [| |assumption].
    + intros d n Hn. apply P. cbn [bk_get] in *. destruct (k =? d); [now right|assumption].
    + intros d. specialize (ND d). cbn [bk_get] in *. destruct (k =? d); [assumption|assumption].
Qed.

(* ---------- every reachable table ---------- *)
Inductive rt_op := RAdd (n : node) (now : Z) | RRemove (i : id) | RReset (i : id) (now : Z).

Definition rt_step (t : rtable) (o : rt_op) : rtable :=
  match o with
  | RAdd n now => fst (rt_add now t n)
  | RRemove i => rt_remove t i
  | RReset i now => rt_reset_id now t i
  end.

Definition op_ok (o : rt_op) : Prop :=
  match o with
  | RAdd n _ => node_ok n
  | RRemove _ => True
  | RReset i _ => id_wf i = true
  end.

Theorem rt_inv_reachable self ops :
  id_wf self = true -> Forall op_ok ops -> Inv (fold_left rt_step ops (rt_new self)).
Proof.
  intros Hs F. assert (G: forall t, Inv t -> Inv (fold_left rt_step ops t)).
  { induction F as [|o ops Ho _ IH]; intros t I; [exact I|]. cbn [fold_left]. apply IH.
    destruct o as [n now|i|i now]; cbn [rt_step op_ok] in *.
    - destruct (rt_add now t n) as [t' r] eqn:E. cbn. eapply rt_add_inv; eassumption.
    - now apply rt_remove_inv.
    - now apply rt_reset_id_inv. }
  apply G. now apply inv_new.
Qed.

(* ---------- what the invariant says in the property's words ---------- *)
Theorem inv_no_self t n : Inv t -> In n (rt_values t) -> nid n <> rid t.
Proof.
  intros I Hn E. apply (in_values_bucket t n (inv_keys t I)) in Hn. destruct Hn as (d & Hn).
  destruct (inv_place t I _ _ Hn) as (D & D0 & Hok).
  assert (distance (rid t) (nid n) = 0).
  { rewrite E. apply dist_zero_iff_eq; [exact (inv_self t I)|exact (inv_self t I)|reflexivity]. }
  lia.
Qed.

Theorem inv_bucket_matches_distance t d n : Inv t -> In n (bucket_of t d) -> distance (rid t) (nid n) = d.
Proof. intros I H. apply (inv_place t I _ _ H). Qed.

Theorem inv_bucket_cap t d : Inv t -> (length (bucket_of t d) <= 20)%nat.
Proof. intros I. pose proof (inv_cap t I d) as H. unfold K in H. exact H. Qed.

Theorem inv_one_insecure_per_ip t a b : Inv t ->
  In a (rt_values t) -> In b (rt_values t) -> nip a = nip b -> nsec a = false -> nsec b = false -> a = b.
Proof.
  intros I Ha Hb Hip Sa Sb.
  pose proof (rt_values_nodup t I) as ND.
  apply (in_values_bucket t a (inv_keys t I)) in Ha as Ha'. destruct Ha' as (d1 & Ha').
  apply (in_values_bucket t b (inv_keys t I)) in Hb as Hb'. destruct Hb' as (d2 & Hb').
  destruct (list_eq_dec N.eq_dec (nid a) (nid b)) as [E|NE].
  - (* same id: the same entry, because ids are unique in the table *)
    clear - ND Ha Hb E. induction (rt_values t) as [|x l IH]; [destruct Ha|].
    cbn in ND. inversion ND as [|? ? Hx ND']; subst.
    destruct Ha as [->|Ha], Hb as [->|Hb]; try reflexivity.
    + exfalso. apply Hx. rewrite E. now apply in_map.
    + exfalso. apply Hx. rewrite <- E. now apply in_map.
    + now apply IH.
  - destruct (inv_ip t I _ _ _ _ Ha' Hb' NE Hip) as [_ [S|S]]; congruence.
Qed.

Theorem inv_secure_prefixes_differ t a b : Inv t ->
  In a (rt_values t) -> In b (rt_values t) -> nip a = nip b -> nid a <> nid b -> same_prefix a b = false.
Proof.
  intros I Ha Hb Hip NE.
  apply (in_values_bucket t a (inv_keys t I)) in Ha. destruct Ha as (d1 & Ha).
  apply (in_values_bucket t b (inv_keys t I)) in Hb. destruct Hb as (d2 & Hb).
  apply (inv_ip t I _ _ _ _ Ha Hb NE Hip).
Qed.

(* ---------- eviction ---------- *)
Theorem rt_add_evicts now t n m : Inv t ->
  In m (rt_values t) -> ~ In m (rt_values (fst (rt_add now t n))) ->
  nid m = nid n \/
  (is_stale now m = true /\ exists tl, bucket_of t (distance (rid t) (nid n)) = m :: tl /\ (20 <= length (m :: tl))%nat).
Proof.
  intros I Hm Hnot. unfold rt_add in Hnot.
  destruct (N.eqb_spec (distance (rid t) (nid n)) 0) as [Z0|NZ]; [cbn in Hnot; contradiction|].
  destruct (existsb _ (rbuckets t)) eqn:AE; [cbn in Hnot; contradiction|].
  set (d := distance (rid t) (nid n)) in *. fold (bucket_of t d) in Hnot.
  destruct (bucket_add now (bucket_of t d) n) as [b' r'] eqn:BA. cbn [fst] in Hnot.
  set (t' := {| rid := rid t; rbuckets := bk_set d b' (rbuckets t) |}) in *.
  assert (S': StronglySorted N.lt (keys (rbuckets t'))) by (unfold t'; cbn [rbuckets]; apply bk_set_sorted, (inv_keys t I)).
  apply (in_values_bucket t m (inv_keys t I)) in Hm. destruct Hm as (dm & Hm).
  assert (Hn': ~ In m (bucket_of t' dm)).
  { intros H. apply Hnot. apply (in_values_bucket t' m S'). eauto. }
  unfold t' in Hn'. rewrite bucket_of_set in Hn'. destruct (N.eqb_spec dm d) as [->|Hd]; [|contradiction].
  destruct (bucket_add_evicts _ _ _ _ _ _ BA Hm Hn') as [E|(St & tl & Eb & L)]; [now left|right].
  split; [assumption|]. exists tl. split; [assumption|]. rewrite <- Eb. unfold K in L. exact L.
Qed.

Lemma node_eq_dec (a b : node) : {a = b} + {a <> b}.
Proof.
  decide equality; try apply bool_dec; try apply Z.eq_dec; try apply N.eq_dec; try (apply list_eq_dec, N.eq_dec).
  decide equality. apply list_eq_dec, N.eq_dec.
Qed.

Corollary rt_add_never_evicts_fresh now t n m : Inv t ->
  In m (rt_values t) -> nid m <> nid n -> is_stale now m = false -> In m (rt_values (fst (rt_add now t n))).
Proof.
  intros I Hm Hid Hf.
  destruct (in_dec node_eq_dec
                   m (rt_values (fst (rt_add now t n)))) as [Y|Nn]; [assumption|].
  destruct (rt_add_evicts now t n m I Hm Nn) as [E|(St & _)]; congruence.
Qed.

(* ---------- C11: closest() of a table that satisfies the invariant ---------- *)
Theorem rt_closest_spec t target : Inv t -> length target = 20%nat ->
  let full := fold_left (cn_insert target) (rt_values t) [] in
  cn_sorted target full /\ Permutation full (rt_values t) /\ rt_closest t target = firstn 20 full
  /\ (forall l', cn_sorted target l' -> Permutation l' (rt_values t) -> l' = full).
Proof.
  intros I Lt full.
  assert (Hok: ids_ok (rt_values t)).
  { unfold ids_ok. rewrite Forall_forall. intros n Hn.
    apply (in_values_bucket t n (inv_keys t I)) in Hn. destruct Hn as (d & Hn).
    destruct (inv_place t I _ _ Hn) as (_ & _ & Hw). unfold node_ok, id_wf, ID_SIZE in Hw.
    rewrite andb_true_iff, Nat.eqb_eq in Hw. tauto. }
  pose proof (rt_values_nodup t I) as ND.
  destruct (cn_inserts_spec target (rt_values t) Lt Hok ND [] (SSorted_nil _) (Forall_nil _) ND) as [S P].
  fold full in S, P. cbn [app] in P.
  split; [exact S|]. split; [exact P|]. split; [reflexivity|].
  intros l' S' P'. symmetry.
  assert (Hokf: ids_ok full).
  { unfold ids_ok in *. rewrite Forall_forall in *. intros x Hx. apply Hok. eapply Permutation_in; [exact P|exact Hx]. }
  assert (NDf: NoDup (map nid full)).
  { eapply Permutation_NoDup; [apply Permutation_map, Permutation_sym; exact P|exact ND]. }
  apply (cn_sorted_unique target full l' Lt Hokf NDf S S').
  eapply Permutation_trans; [exact P|apply Permutation_sym; exact P'].
Qed.

Theorem rt_closest_len t target : (length (rt_closest t target) <= 20)%nat.
Proof. unfold rt_closest, K. rewrite firstn_length. change (N.to_nat P_MAX_BUCKET_SIZE_K) with 20%nat. lia. Qed.
