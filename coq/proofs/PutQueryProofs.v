(* PutQueryProofs.v — lemmas behind properties/C08.v and C17.v *)
From Coq Require Import Lia.
From MLV Require Import model.Bytes model.PutQuery model.Check08.
Open Scope N_scope.

(* what has been accepted so far *)
Definition accepted_ack (seen : list pevent) : Prop := existsb is_ack seen = true.
Definition accepted_code (c : Z) (seen : list pevent) : Prop := existsb (is_err_code c) seen = true.

(* invariant of the store phase relative to the events consumed so far *)
Record PInv (q : putq) (seen : list pevent) : Prop := {
  pi_stored : pq_stored q <> 0 -> accepted_ack seen;
  pi_errors : forall c k, In (c, k) (pq_errors q) -> accepted_code k seen
}.

Lemma existsb_app_r {A} (f : A -> bool) l x : existsb f l = true -> existsb f (l ++ [x]) = true.
Proof. intros H. rewrite existsb_app, H. reflexivity. Qed.
Lemma existsb_app_last {A} (f : A -> bool) l x : f x = true -> existsb f (l ++ [x]) = true.
Proof. intros H. rewrite existsb_app. cbn. rewrite H. now rewrite orb_true_r. Qed.

Lemma in_bump code l l' e : bump code l = Some l' -> In e l' -> snd e = code \/ exists c, In (c, snd e) l.
Proof.
  revert l'. induction l as [|[c k] r IH]; intros l' H Hin; cbn [bump] in H; [discriminate|].
  destruct (Z.eqb_spec k code) as [->|Hk].
  - injection H as <-. destruct Hin as [<-|Hin]; [now left|]. right. destruct e as [c' k']. exists c'. now right.
  - destruct (bump code r) as [r'|] eqn:E; [|discriminate]. injection H as <-.
    destruct Hin as [<-|Hin]; [right; exists c; now left|].
    destruct (IH r' eq_refl Hin) as [->|(c' & Hc)]; [now left|right; exists c'; now right].
Qed.

Lemma in_bubble e l : In e (bubble l) -> In e l.
Proof.
  revert e. induction l as [|x r IH]; intros e H; [exact H|]. cbn [bubble] in H.
  destruct (bubble r) as [|y r'] eqn:E.
  - destruct H as [<-|[]]. now left.
  - assert (Hy: forall z, In z (y :: r') -> In z r) by (intros z Hz; apply IH; exact Hz).
    destruct (fst x <? fst y); cbn in H; destruct H as [<-|[<-|H]]; try (now left);
      try (right; apply Hy; now left); right; apply Hy; now right.
Qed.

Lemma pinv_weaken q seen e : PInv q seen -> PInv q (seen ++ [e]).
Proof.
  intros [I1 I2]. constructor.
  - intros H. unfold accepted_ack. apply existsb_app_r. exact (I1 H).
  - intros c0 k H. unfold accepted_code. apply existsb_app_r. exact (I2 c0 k H).
Qed.

Lemma pinv_success q seen t : PInv q seen -> PInv (pq_success q) (seen ++ [EvAck t]).
Proof.
  intros [I1 I2]. constructor; cbn [pq_success pq_stored pq_errors].
  - intros _. unfold accepted_ack. now apply existsb_app_last.
  - intros c0 k H. unfold accepted_code. apply existsb_app_r. exact (I2 c0 k H).
Qed.

Lemma pinv_error q seen t c : PInv q seen -> PInv (pq_error q c) (seen ++ [EvErr t c]).
Proof.
  intros [I1 I2]. constructor; cbn [pq_error pq_stored pq_errors].
  - intros H. unfold accepted_ack. apply existsb_app_r. exact (I1 H).
  - intros c0 k H. unfold accepted_code. destruct (bump c (pq_errors q)) as [l|] eqn:E.
    + apply in_bubble in H. destruct (in_bump _ _ _ (c0, k) E H) as [Hk|(c' & Hc)]; cbn [snd] in *.
      * subst k. apply existsb_app_last. cbn. apply Z.eqb_refl.
      * apply existsb_app_r. exact (I2 _ _ Hc).
    + apply in_app_or in H. destruct H as [H|[H|[]]].
      * apply existsb_app_r. exact (I2 _ _ H).
      * injection H as _ <-. apply existsb_app_last. cbn. apply Z.eqb_refl.
Qed.

Lemma pstep_inv q pending seen e :
  PInv q seen -> PInv (fst (pstep (q, pending) e)) (seen ++ [e]).
Proof.
  intros I. destruct e as [t|t c|]; cbn [pstep].
  - destruct (existsb (N.eqb t) pending && existsb (N.eqb t) (pq_sent q)); cbn [fst];
      [now apply pinv_success|now apply pinv_weaken].
  - destruct (existsb (N.eqb t) pending && existsb (N.eqb t) (pq_sent q)); cbn [fst];
      [now apply pinv_error|now apply pinv_weaken].
  - cbn [fst]. now apply pinv_weaken.
Qed.

(* what each outcome of `check` means in terms of the invariant *)
Lemma check_sound q pending seen o : PInv q seen -> pq_check q pending = Some o ->
  match o with
  | OutOk => accepted_ack seen
  | OutErr (EConcurrency CasFailed) => pq_mutable q = true /\ accepted_code 301 seen
  | OutErr (EConcurrency NotMostRecent) => pq_mutable q = true /\ accepted_code 302 seen
  | OutErr (EConcurrency ConflictRisk) => False
  | OutErr ETimeout => pq_stored q = 0
  | OutErr ENoClosestNodes => False
  end.
Proof.
  intros [I1 I2]. unfold pq_check, majority_rejected.
  assert (M: forall c e, most_common_error q = Some (c, e) ->
             pq_mutable q = true /\ match e with CasFailed => accepted_code 301 seen | NotMostRecent => accepted_code 302 seen | ConflictRisk => False end).
  { intros c e. unfold most_common_error. destruct (pq_mutable q); cbn [negb]; [|discriminate].
    destruct (pq_errors q) as [|[c0 k] r] eqn:E; [discriminate|].
    assert (Hk: accepted_code k seen) by (apply (I2 c0 k); try rewrite E; now left).
    destruct k as [|p|p]; try discriminate.
    destruct (Pos.eq_dec p 301) as [->|N1]; [intros H; injection H as <- <-; split; [reflexivity|exact Hk]|].
    destruct (Pos.eq_dec p 302) as [->|N2]; [intros H; injection H as <- <-; split; [reflexivity|exact Hk]|].
    intros H. exfalso. repeat (destruct p as [p|p|]; try discriminate; try (now apply N1); try (now apply N2)). }
  destruct (most_common_error q) as [[c e]|] eqn:EM.
  - destruct (M c e eq_refl) as [Hm He].
    destruct (N.of_nat (length (pq_sent q) / 2) + 1 <=? c).
    + intros H. injection H as <-. destruct e; tauto.
    + destruct (negb match pq_sent q with [] => true | _ => false end && negb (existsb (fun t => existsb (N.eqb t) pending) (pq_sent q))); [|discriminate].
      destruct (N.eqb_spec (pq_stored q) 0) as [Z0|NZ]; intros H; injection H as <-; [destruct e; tauto|auto].
  - destruct (negb match pq_sent q with [] => true | _ => false end && negb (existsb (fun t => existsb (N.eqb t) pending) (pq_sent q))); [|discriminate].
    destruct (N.eqb_spec (pq_stored q) 0) as [Z0|NZ]; intros H; injection H as <-; auto.
Qed.

Lemma pstep_mutable st e : pq_mutable (fst (pstep st e)) = pq_mutable (fst st).
Proof.
  destruct st as [q p]. destruct e as [t|t c|]; cbn [pstep fst]; try reflexivity;
    destruct (existsb (N.eqb t) p && existsb (N.eqb t) (pq_sent q)); reflexivity.
Qed.

Definition out_ok (mutable : bool) (o : outcome) (seen : list pevent) : Prop :=
  match o with
  | OutOk => accepted_ack seen
  | OutErr (EConcurrency CasFailed) => mutable = true /\ accepted_code 301 seen
  | OutErr (EConcurrency NotMostRecent) => mutable = true /\ accepted_code 302 seen
  | OutErr (EConcurrency ConflictRisk) => False
  | OutErr ETimeout => True
  | OutErr ENoClosestNodes => False
  end.

Lemma prun_sound evs : forall st seen k o k',
  PInv (fst st) seen -> N.of_nat (length seen) = k ->
  prun st evs k = Some (o, k') ->
  out_ok (pq_mutable (fst st)) o (firstn (N.to_nat k') (seen ++ evs)).
Proof.
  induction evs as [|e r IH]; intros st seen k o k' I L H; cbn [prun] in H.
  - destruct (pq_check (fst st) (snd st)) as [o'|] eqn:C; [|discriminate]. injection H as <- <-.
    rewrite app_nil_r. rewrite <- L, Nat2N.id, firstn_all.
    pose proof (check_sound _ _ _ _ I C) as S. destruct o' as [|[[| |]| |]]; cbn [out_ok]; tauto.
  - destruct (pq_check (fst st) (snd st)) as [o'|] eqn:C.
    + injection H as <- <-. rewrite <- L, Nat2N.id.
      rewrite firstn_app, Nat.sub_diag, firstn_all. cbn [firstn]. rewrite app_nil_r.
      pose proof (check_sound _ _ _ _ I C) as S. destruct o' as [|[[| |]| |]]; cbn [out_ok]; tauto.
    + rewrite <- (pstep_mutable st e).
      replace (seen ++ e :: r) with ((seen ++ [e]) ++ r) by now rewrite <- app_assoc.
      eapply IH; [| |exact H].
      * destruct st as [q p]. exact (pstep_inv q p seen e I).
      * rewrite app_length. cbn [length]. lia.
Qed.

Lemma pinv_new mutable tids : PInv (pq_new mutable tids) [].
Proof. constructor; cbn; [intros H; now elim H|intros c k []]. Qed.

(* ---------- C08 ---------- *)
Theorem run_put_sound mutable tids evs o k :
  run_put mutable tids evs = Some (o, k) ->
  match o with
  | OutOk => existsb is_ack (firstn (N.to_nat k) evs) = true
  | OutErr (EConcurrency CasFailed) => mutable = true /\ existsb (is_err_code 301) (firstn (N.to_nat k) evs) = true
  | OutErr (EConcurrency NotMostRecent) => mutable = true /\ existsb (is_err_code 302) (firstn (N.to_nat k) evs) = true
  | OutErr (EConcurrency ConflictRisk) => False
  | OutErr ETimeout => True
  | OutErr ENoClosestNodes => tids = []
  end.
Proof.
  unfold run_put. destruct tids as [|t ts]; [intros H; injection H as <- <-; reflexivity|].
  intros H. pose proof (prun_sound evs (pq_new mutable (t :: ts), t :: ts) [] 0 o k (pinv_new _ _) eq_refl H) as S.
  cbn [app fst pq_new pq_mutable] in S. destruct o as [|[[| |]| |]]; cbn [out_ok] in S; try tauto.
Qed.

Corollary no_ack_never_ok mutable tids evs k :
  forallb (fun e => negb (is_ack e)) evs = true -> run_put mutable tids evs <> Some (OutOk, k).
Proof.
  intros Hno H. apply run_put_sound in H. cbn in H.
  assert (G: forall l n, forallb (fun e => negb (is_ack e)) l = true -> existsb is_ack (firstn n l) = false).
  { induction l as [|x l IH]; intros n Hl; [now destruct n|]. cbn [forallb] in Hl. apply andb_true_iff in Hl as [Hx Hl].
    destruct n; [reflexivity|]. cbn [firstn existsb]. apply negb_true_iff in Hx. rewrite Hx. now apply IH. }
  rewrite G in H by assumption. discriminate.
Qed.

Corollary other_kinds_never_concurrency tids evs c k :
  run_put false tids evs <> Some (OutErr (EConcurrency c), k).
Proof. intros H. apply run_put_sound in H. destruct c; [destruct H; discriminate|destruct H; discriminate|exact H]. Qed.

(* once everything outstanding has expired the put is over: no put hangs in the store phase *)
Lemma check_no_pending q : pq_sent q <> [] -> pq_check q [] <> None.
Proof.
  intros Hs. unfold pq_check. destruct (majority_rejected q); [discriminate|].
  assert (X: forall l : list N, existsb (fun t0 => existsb (N.eqb t0) []) l = false) by (induction l; [reflexivity|cbn; assumption]).
  rewrite X. destruct (pq_sent q) as [|t ts]; [now elim Hs|]. cbn [negb andb].
  destruct (pq_stored q =? 0); discriminate.
Qed.

Lemma pstep_sent st e : pq_sent (fst (pstep st e)) = pq_sent (fst st).
Proof.
  destruct st as [q p]. destruct e as [t|t c|]; cbn [pstep fst]; try reflexivity;
    destruct (existsb (N.eqb t) p && existsb (N.eqb t) (pq_sent q)); reflexivity.
Qed.

Theorem expiry_terminates evs : forall st k, pq_sent (fst st) <> [] -> In EvExpire evs -> prun st evs k <> None.
Proof.
  induction evs as [|e r IH]; intros st k Hs Hin; [destruct Hin|]. cbn [prun].
  destruct (pq_check (fst st) (snd st)); [discriminate|].
  destruct Hin as [->|Hin].
  - destruct st as [q p]. cbn [pstep]. destruct r as [|e' r']; cbn [prun fst snd].
    + pose proof (check_no_pending q Hs). destruct (pq_check q []); [discriminate|contradiction].
    + pose proof (check_no_pending q Hs). destruct (pq_check q []); [discriminate|contradiction].
  - apply IH; [now rewrite pstep_sent|assumption].
Qed.

(* ---------- C17 ---------- *)
Theorem conflict_rule_table inflight req :
  check_concurrency inflight req =
  match inflight with
  | None => CAccept
  | Some inf =>
      if bytes_eqb (mp_sig req) (mp_sig inf) then CAccept
      else if (mp_seq req <? mp_seq inf)%Z then CReject NotMostRecent
      else match mp_cas req with
           | None => CReject ConflictRisk
           | Some c => if (c =? mp_seq inf)%Z then CSupersede else CReject CasFailed
           end
  end.
Proof. destruct inflight as [inf|]; [|reflexivity]. cbn. destruct (mp_cas req); reflexivity. Qed.

Theorem majority_surfaces q pending e :
  majority_rejected q = Some e -> pq_check q pending = Some (OutErr (EConcurrency e)).
Proof. intros H. unfold pq_check. now rewrite H. Qed.

Theorem majority_threshold q c e :
  pq_mutable q = true ->
  most_common_error q = Some (c, e) ->
  (majority_rejected q = Some e <-> N.of_nat (length (pq_sent q) / 2) + 1 <= c).
Proof.
  intros _ H. unfold majority_rejected. rewrite H.
  destruct (N.leb_spec (N.of_nat (length (pq_sent q) / 2) + 1) c); split; intros; try reflexivity; try assumption; try discriminate; lia.
Qed.
