(* TokenProofs.v — lemmas behind properties/C15.v: CRC-32C of (ip || secret) is injective in ip,
   and the rotation timeline. *)
From Coq Require Import Lia.
From MLV Require Import gen.Params model.Bytes model.Crc32c model.Id model.Node model.Tokens proofs.Sweep proofs.IdProofs
  proofs.ClosestProofs proofs.RTableProofs.
Open Scope N_scope.

(* ---------- the register update has a left inverse ---------- *)
Definition unstep (r : N) : N :=
  let b := N.testbit r 31 in
  let s := if b then N.lxor r crc_poly else r in
  2 * s + (if b then 1 else 0).

Lemma testbit_high h n : h < 2 ^ n -> N.testbit h n = false.
Proof.
  intros H. destruct (N.eq_dec h 0) as [->|Hn]; [apply N.bits_0|].
  apply N.bits_above_log2. apply N.log2_lt_pow2; [lia|assumption].
Qed.

Lemma half_lt c : c < 2 ^ 32 -> N.shiftr c 1 < 2 ^ 31.
Proof.
  intros H. rewrite N.shiftr_div_pow2. change (2 ^ 1) with 2. apply N.div_lt_upper_bound; [discriminate|].
  change (2 * 2 ^ 31) with (2 ^ 32). exact H.
Qed.

Lemma twice_half c : c = 2 * N.shiftr c 1 + (if N.odd c then 1 else 0).
Proof.
  rewrite <- N.div2_spec. rewrite (N.div2_odd c) at 1. destruct (N.odd c); reflexivity.
Qed.

Lemma unstep_step c : c < 2 ^ 32 -> unstep (crc_step c) = c.
Proof.
  intros H. pose proof (half_lt c H) as Hh. unfold unstep, crc_step.
  destruct (N.odd c) eqn:Eo.
  - rewrite N.lxor_spec, (testbit_high _ _ Hh). change (N.testbit crc_poly 31) with true. cbn [xorb].
    rewrite N.lxor_assoc, N.lxor_nilpotent, N.lxor_0_r. symmetry. rewrite (twice_half c) at 1. now rewrite Eo.
  - rewrite (testbit_high _ _ Hh). symmetry. rewrite (twice_half c) at 1. now rewrite Eo.
Qed.

Lemma crc_step_inj c c' : c < 2 ^ 32 -> c' < 2 ^ 32 -> crc_step c = crc_step c' -> c = c'.
Proof. intros H H' E. rewrite <- (unstep_step c H), <- (unstep_step c' H'). now rewrite E. Qed.

Lemma iter_step_lt n : forall c, c < 2 ^ 32 -> iter n crc_step c < 2 ^ 32.
Proof. induction n as [|n IH]; intros c H; [exact H|]. cbn [iter]. apply IH. now apply crc_step_lt. Qed.

Lemma iter_step_inj n : forall c c', c < 2 ^ 32 -> c' < 2 ^ 32 -> iter n crc_step c = iter n crc_step c' -> c = c'.
Proof.
  induction n as [|n IH]; intros c c' H H' E; [exact E|]. cbn [iter] in E.
  apply crc_step_inj; try assumption. apply IH; try assumption; now apply crc_step_lt.
Qed.

Lemma lxor_cancel_r a b c : N.lxor a c = N.lxor b c -> a = b.
Proof.
  intros E. assert (N.lxor (N.lxor a c) c = N.lxor (N.lxor b c) c) by now rewrite E.
  now rewrite !N.lxor_assoc, !N.lxor_nilpotent, !N.lxor_0_r in H.
Qed.

Lemma byte_lt_pow32 b : b < 256 -> b < 2 ^ 32.
Proof. change (2 ^ 32) with 4294967296. lia. Qed.

Lemma crc_upd_inj c c' b : c < 2 ^ 32 -> c' < 2 ^ 32 -> b < 256 -> crc_upd c b = crc_upd c' b -> c = c'.
Proof.
  intros H H' Hb E. unfold crc_upd in E. apply iter_step_inj in E.
  - eapply lxor_cancel_r; exact E.
  - apply lxor_lt_pow2; [assumption|now apply byte_lt_pow32].
  - apply lxor_lt_pow2; [assumption|now apply byte_lt_pow32].
Qed.

Lemma crc_fold_inj bs : forall c c', wf_bytes bs = true -> c < 2 ^ 32 -> c' < 2 ^ 32 ->
  fold_left crc_upd bs c = fold_left crc_upd bs c' -> c = c'.
Proof.
  induction bs as [|b bs IH]; intros c c' W H H' E; [exact E|].
  apply wf_bytes_cons in W as [Hb W]. cbn [fold_left] in E.
  apply IH in E; try assumption; try (now apply crc_upd_lt).
  eapply crc_upd_inj; eassumption.
Qed.

(* ---------- feeding bytes one at a time = xoring the little-endian word, then stepping ---------- *)
Lemma step_shift c y : crc_step (N.lxor c (2 * y)) = N.lxor (crc_step c) y.
Proof.
  unfold crc_step.
  assert (Ho: N.odd (N.lxor c (2 * y)) = N.odd c).
  { rewrite <- !N.bit0_odd, N.lxor_spec. rewrite N.testbit_even_0. now rewrite xorb_false_r. }
  assert (Hs: N.shiftr (N.lxor c (2 * y)) 1 = N.lxor (N.shiftr c 1) y).
  { rewrite N.shiftr_lxor. f_equal. rewrite <- N.div2_spec. apply N.div2_double. }
  rewrite Ho, Hs. destruct (N.odd c); [|reflexivity].
  rewrite !N.lxor_assoc. f_equal. apply N.lxor_comm.
Qed.

Lemma iter_step_shift n : forall c y, iter n crc_step (N.lxor c (2 ^ N.of_nat n * y)) = N.lxor (iter n crc_step c) y.
Proof.
  induction n as [|n IH]; intros c y.
  - cbn [iter]. change (2 ^ N.of_nat 0) with 1. now rewrite N.mul_1_l.
  - cbn [iter]. rewrite Nat2N.inj_succ, N.pow_succ_r', <- N.mul_assoc. rewrite step_shift. apply IH.
Qed.

Lemma iter_plus {A} (f : A -> A) n m x : iter (n + m) f x = iter m f (iter n f x).
Proof. revert x. induction n as [|n IH]; intros x; [reflexivity|]. cbn [Nat.add iter]. apply IH. Qed.

Definition le_word (b0 b1 b2 b3 : N) : N := b0 + 256 * (b1 + 256 * (b2 + 256 * b3)).

Lemma crc_word c b0 b1 b2 b3 :
  fold_left crc_upd [b0; b1; b2; b3] c =
  iter 32 crc_step (N.lxor (N.lxor (N.lxor (N.lxor c b0) (256 * b1)) (65536 * b2)) (16777216 * b3)).
Proof.
  cbn [fold_left]. unfold crc_upd.
  set (A0 := N.lxor c b0).
  pose proof (iter_step_shift 8 A0 b1) as E1. change (2 ^ N.of_nat 8) with 256 in E1. rewrite <- E1.
  set (A1 := N.lxor A0 (256 * b1)).
  assert (I16: forall x, iter 8 crc_step (iter 8 crc_step x) = iter 16 crc_step x) by (intros x; symmetry; apply (iter_plus crc_step 8 8)).
  pose proof (iter_step_shift 16 A1 b2) as E2. change (2 ^ N.of_nat 16) with 65536 in E2.
  rewrite I16, <- E2. set (A2 := N.lxor A1 (65536 * b2)).
  assert (I24: forall x, iter 8 crc_step (iter 16 crc_step x) = iter 24 crc_step x) by (intros x; symmetry; apply (iter_plus crc_step 16 8)).
  assert (I32: forall x, iter 8 crc_step (iter 24 crc_step x) = iter 32 crc_step x) by (intros x; symmetry; apply (iter_plus crc_step 24 8)).
  pose proof (iter_step_shift 24 A2 b3) as E3. change (2 ^ N.of_nat 24) with 16777216 in E3.
  rewrite I24, <- E3. apply I32.
Qed.

(* ---------- disjoint xor is addition ---------- *)
Lemma land_low_high a b k : a < 2 ^ k -> N.land a (2 ^ k * b) = 0.
Proof.
  intros H. apply N.bits_inj. intros n. rewrite N.land_spec, N.bits_0.
  destruct (N.lt_ge_cases n k) as [L|G].
  - rewrite (N.mul_comm (2 ^ k) b), N.mul_pow2_bits_low by assumption. apply andb_false_r.
  - assert (N.testbit a n = false).
    { destruct (N.eq_dec a 0) as [->|Ha]; [apply N.bits_0|]. apply N.bits_above_log2.
      eapply N.lt_le_trans; [|exact G]. apply N.log2_lt_pow2; [lia|assumption]. }
    rewrite H0. reflexivity.
Qed.

Lemma lxor_low_high a b k : a < 2 ^ k -> N.lxor a (2 ^ k * b) = a + 2 ^ k * b.
Proof. intros H. symmetry. apply N.add_nocarry_lxor. now apply land_low_high. Qed.

Definition word_of (b0 b1 b2 b3 : N) : N := N.lxor (N.lxor (N.lxor b0 (256 * b1)) (65536 * b2)) (16777216 * b3).

Lemma word_of_add b0 b1 b2 b3 : b0 < 256 -> b1 < 256 -> b2 < 256 -> b3 < 256 ->
  word_of b0 b1 b2 b3 = b0 + 256 * b1 + 65536 * b2 + 16777216 * b3.
Proof.
  intros H0 H1 H2 H3. unfold word_of.
  change 256 with (2 ^ 8) at 1. rewrite lxor_low_high by (change (2 ^ 8) with 256; exact H0).
  change 65536 with (2 ^ 16). rewrite lxor_low_high by (change (2 ^ 8) with 256; change (2 ^ 16) with 65536; lia).
  change 16777216 with (2 ^ 24). rewrite lxor_low_high by (change (2 ^ 8) with 256; change (2 ^ 16) with 65536; change (2 ^ 24) with 16777216; lia).
  reflexivity.
Qed.

Lemma word_of_lt b0 b1 b2 b3 : b0 < 256 -> b1 < 256 -> b2 < 256 -> b3 < 256 -> word_of b0 b1 b2 b3 < 2 ^ 32.
Proof. intros. rewrite word_of_add by assumption. change (2 ^ 32) with 4294967296. lia. Qed.

Lemma lxor_chain c b0 b1 b2 b3 :
  N.lxor (N.lxor (N.lxor (N.lxor c b0) (256 * b1)) (65536 * b2)) (16777216 * b3) = N.lxor c (word_of b0 b1 b2 b3).
Proof. unfold word_of. now rewrite !N.lxor_assoc. Qed.

Lemma bytes4_inj b0 b1 b2 b3 c0 c1 c2 c3 :
  b0 < 256 -> b1 < 256 -> b2 < 256 -> b3 < 256 -> c0 < 256 -> c1 < 256 -> c2 < 256 -> c3 < 256 ->
  b0 + 256 * b1 + 65536 * b2 + 16777216 * b3 = c0 + 256 * c1 + 65536 * c2 + 16777216 * c3 ->
  b0 = c0 /\ b1 = c1 /\ b2 = c2 /\ b3 = c3.
Proof. intros. lia. Qed.

Lemma be4_decomp x : x < 4294967296 ->
  x = (x / 256 / 256 / 256 mod 256) * 16777216 + (x / 256 / 256 mod 256) * 65536 + (x / 256 mod 256) * 256 + x mod 256.
Proof. intros H. divlia. Qed.

(* state of the CRC register after the four address bytes *)
Definition after_ip (ip : N) : N := fold_left crc_upd (N_to_be 4 ip) crc_mask.

Lemma after_ip_lt ip : after_ip ip < 2 ^ 32.
Proof. unfold after_ip. apply crc_fold_lt; [apply wf_N_to_be_4|vm_compute; reflexivity]. Qed.

Lemma word_inj b0 b1 b2 b3 c0 c1 c2 c3 :
  b0 < 256 -> b1 < 256 -> b2 < 256 -> b3 < 256 -> c0 < 256 -> c1 < 256 -> c2 < 256 -> c3 < 256 ->
  N.lxor crc_mask (word_of b0 b1 b2 b3) = N.lxor crc_mask (word_of c0 c1 c2 c3) ->
  b0 = c0 /\ b1 = c1 /\ b2 = c2 /\ b3 = c3.
Proof.
  intros B0 B1 B2 B3 C0 C1 C2 C3 E.
  rewrite (N.lxor_comm crc_mask), (N.lxor_comm crc_mask (word_of c0 c1 c2 c3)) in E. apply lxor_cancel_r in E.
  rewrite !word_of_add in E by assumption. now apply bytes4_inj.
Qed.

Lemma mod256_lt x : x mod 256 < 256.
Proof. apply N.mod_lt. discriminate. Qed.

Definition step32 (x : N) : N := iter 32 crc_step x.
Lemma step32_inj c c' : c < 2 ^ 32 -> c' < 2 ^ 32 -> step32 c = step32 c' -> c = c'.
Proof. apply iter_step_inj. Qed.

Lemma after_ip_word ip :
  after_ip ip = step32 (N.lxor crc_mask (word_of (ip / 256 / 256 / 256 mod 256) (ip / 256 / 256 mod 256) (ip / 256 mod 256) (ip mod 256))).
Proof. unfold after_ip, step32. rewrite N_to_be_4, crc_word, lxor_chain. reflexivity. Qed.

Global Opaque step32.

Lemma after_ip_inj ip ip' : ip < 2 ^ 32 -> ip' < 2 ^ 32 -> after_ip ip = after_ip ip' -> ip = ip'.
Proof.
  intros H H' E. rewrite !after_ip_word in E.
  apply step32_inj in E.
  - apply word_inj in E; try apply mod256_lt. destruct E as (E0 & E1 & E2 & E3).
    change (2 ^ 32) with 4294967296 in H, H'.
    rewrite (be4_decomp ip H), (be4_decomp ip' H'). now rewrite E0, E1, E2, E3.
  - apply lxor_lt_pow2; [vm_compute; reflexivity|apply word_of_lt; apply mod256_lt].
  - apply lxor_lt_pow2; [vm_compute; reflexivity|apply word_of_lt; apply mod256_lt].
Qed.

Lemma N_to_be_4_inj x y : x < 2 ^ 32 -> y < 2 ^ 32 -> N_to_be 4 x = N_to_be 4 y -> x = y.
Proof.
  intros Hx Hy E. rewrite !N_to_be_4 in E. injection E as E0 E1 E2 E3.
  change (2 ^ 32) with 4294967296 in *.
  rewrite (be4_decomp x Hx), (be4_decomp y Hy). now rewrite E0, E1, E2, E3.
Qed.

Lemma tok_crc ip secret : crc32c (N_to_be 4 ip ++ secret) = N.lxor (fold_left crc_upd secret (after_ip ip)) crc_mask.
Proof. unfold crc32c, after_ip. now rewrite fold_left_app. Qed.

Global Opaque after_ip.

(* tokens of two different addresses under one secret differ: no probability involved *)
Theorem token_injective_in_ip secret ip ip' :
  wf_bytes secret = true -> ip < 2 ^ 32 -> ip' < 2 ^ 32 ->
  tok_gen secret ip = tok_gen secret ip' -> ip = ip'.
Proof.
  intros W H H' E. unfold tok_gen in E.
  assert (L: forall i, crc32c (N_to_be 4 i ++ secret) < 2 ^ 32).
  { intros i. apply crc32c_lt. unfold wf_bytes. rewrite forallb_app. fold (wf_bytes (N_to_be 4 i)). fold (wf_bytes secret).
    now rewrite wf_N_to_be_4, W. }
  apply N_to_be_4_inj in E; try apply L. rewrite !tok_crc in E. apply lxor_cancel_r in E.
  apply crc_fold_inj in E; try assumption; try apply after_ip_lt.
  now apply after_ip_inj.
Qed.

(* a token issued to ip1 is accepted from ip2 <> ip1 only by colliding with ip2's token under the
   other live secret: the residual 2^-32 event is explicit *)
Theorem token_bound_to_ip t s ip1 ip2 :
  wf_bytes s = true -> ip1 < 2 ^ 32 -> ip2 < 2 ^ 32 -> ip1 <> ip2 ->
  tok_validate t ip2 (tok_gen s ip1) = true ->
  (s <> t_curr t /\ tok_gen s ip1 = tok_gen (t_curr t) ip2) \/ (s <> t_prev t /\ tok_gen s ip1 = tok_gen (t_prev t) ip2).
Proof.
  intros W H1 H2 Hne V. unfold tok_validate in V. apply orb_true_iff in V.
  destruct V as [V|V]; apply bytes_eqb_iff in V.
  - left. split; [|exact V]. intros ->. apply Hne. eapply token_injective_in_ip; eassumption.
  - right. split; [|exact V]. intros ->. apply Hne. eapply token_injective_in_ip; eassumption.
Qed.

Lemma tok_gen_length s ip : length (tok_gen s ip) = 4%nat.
Proof. reflexivity. Qed.

(* a token of any length other than 4 is never accepted *)
Theorem token_wrong_length_rejected t ip tok : length tok <> 4%nat -> tok_validate t ip tok = false.
Proof.
  intros H. unfold tok_validate. apply orb_false_iff. split.
  - destruct (bytes_eqb tok (tok_gen (t_curr t) ip)) eqn:E; [|reflexivity]. apply bytes_eqb_iff in E. subst. now rewrite tok_gen_length in H.
  - destruct (bytes_eqb tok (tok_gen (t_prev t) ip)) eqn:E; [|reflexivity]. apply bytes_eqb_iff in E. subst. now rewrite tok_gen_length in H.
Qed.

(* ---------- rotation timeline ---------- *)
(* one handled request at time `now`, with `fresh` the random secret drawn if a rotation is due *)
Definition tok_tick (t : tokens) (ev : Z * bytes) : tokens :=
  if tok_should_update t (fst ev) then tok_rotate t (fst ev) (snd ev) else t.

Fixpoint monotone (last : Z) (evs : list (Z * bytes)) : Prop :=
  match evs with [] => True | e :: r => (last <= fst e)%Z /\ monotone (fst e) r end.

Lemma tok_tick_no t e : tok_should_update t (fst e) = false -> tok_tick t e = t.
Proof. unfold tok_tick. now intros ->. Qed.
Lemma tok_tick_yes t e : tok_should_update t (fst e) = true -> tok_tick t e = tok_rotate t (fst e) (snd e).
Proof. unfold tok_tick. now intros ->. Qed.

(* once s is the previous secret and the last rotation is at or after t0 - nothing rotates again
   before t0 + 5 min *)
Lemma lifetime_prev s t0 evs : forall t1,
  t_prev t1 = s -> (t0 <= t_updated t1)%Z ->
  Forall (fun e => (fst e <= t0 + TOKEN_ROTATE_INTERVAL)%Z) evs ->
  s = t_curr (fold_left tok_tick evs t1) \/ s = t_prev (fold_left tok_tick evs t1).
Proof.
  induction evs as [|e evs IH]; intros t1 Hp Hu Hf; cbn [fold_left]; [now right|].
  inversion Hf as [|? ? He Hf']; subst.
  destruct (tok_should_update t1 (fst e)) eqn:R.
  - unfold tok_should_update in R. apply Z.ltb_lt in R. lia.
  - rewrite (tok_tick_no _ _ R). now apply IH.
Qed.

(* invariant: a secret that was current at time t0 is still live (current or previous) as long as
   no handled request is later than t0 + 5 min *)
Lemma lifetime_inv evs : forall t t0,
  (t_updated t <= t0)%Z -> monotone t0 evs ->
  Forall (fun e => (fst e <= t0 + TOKEN_ROTATE_INTERVAL)%Z) evs ->
  t_curr t = t_curr (fold_left tok_tick evs t) \/ t_curr t = t_prev (fold_left tok_tick evs t).
Proof.
  induction evs as [|e evs IH]; intros t t0 Hu Hm Hf; cbn [fold_left]; [now left|].
  destruct Hm as [Hm1 Hm2]. inversion Hf as [|? ? He Hf']; subst.
  destruct (tok_should_update t (fst e)) eqn:R.
  - rewrite (tok_tick_yes _ _ R). apply (lifetime_prev (t_curr t) t0); cbn [tok_rotate t_prev t_updated]; [reflexivity|lia|assumption].
  - rewrite (tok_tick_no _ _ R). apply (IH t t0); try assumption.
    (* monotone from t0 still holds for the tail because fst e >= t0 *)
    clear - Hm1 Hm2. destruct evs as [|e' r]; [exact I|]. cbn in *. destruct Hm2. split; [lia|assumption].
Qed.

(* a token stays valid for at least 5 minutes after issue, whatever requests arrive in between *)
Theorem token_min_lifetime t0 t evs ip :
  (t_updated t <= t0)%Z -> monotone t0 evs ->
  Forall (fun e => (fst e <= t0 + 300000)%Z) evs ->
  tok_validate (fold_left tok_tick evs t) ip (tok_generate t ip) = true.
Proof.
  intros Hu Hm Hf.
  assert (L: t_curr t = t_curr (fold_left tok_tick evs t) \/ t_curr t = t_prev (fold_left tok_tick evs t)).
  { apply (lifetime_inv evs t t0); auto. }
  unfold tok_validate, tok_generate. destruct L as [<-|<-]; rewrite bytes_eqb_refl; [reflexivity|apply orb_true_r].
Qed.

(* two rotations are more than 5 minutes apart *)
Theorem rotation_spacing t (e1 e2 : Z * bytes) :
  tok_should_update t (fst e1) = true ->
  tok_should_update (tok_tick t e1) (fst e2) = true -> (fst e1 + 300000 < fst e2)%Z.
Proof.
  unfold tok_tick. intros R1. rewrite R1. unfold tok_should_update, tok_rotate. cbn [t_updated].
  intros R2. apply Z.ltb_lt in R2. change TOKEN_ROTATE_INTERVAL with 300000%Z in R2. lia.
Qed.

(* expiry: once two rotations have happened after issue the issuing secret is gone, unless the
   random source repeats it *)
Theorem token_expiry t (e1 e2 : Z * bytes) :
  tok_should_update t (fst e1) = true -> tok_should_update (tok_tick t e1) (fst e2) = true ->
  let t2 := tok_tick (tok_tick t e1) e2 in
  t_curr t2 = snd e2 /\ t_prev t2 = snd e1.
Proof.
  unfold tok_tick. intros R1. rewrite R1. intros R2. rewrite R2. split; reflexivity.
Qed.
