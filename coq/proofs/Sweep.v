(* Sweep.v — lifting finite sweeps (evaluated by vm_compute) to quantified statements; the
   bound is always part of the statement. *)
From MLV Require Import model.Bytes.
From Coq Require Import Lia.
Open Scope N_scope.

Definition all_bytes : list N := map N.of_nat (seq 0 256).

Lemma in_all_bytes b : b < 256 -> In b all_bytes.
Proof.
  intros H. unfold all_bytes. apply in_map_iff. exists (N.to_nat b). split.
  - apply N2Nat.id.
  - apply in_seq. lia.
Qed.

Lemma byte_sweep (P : N -> bool) :
  forallb P all_bytes = true -> forall b, b < 256 -> P b = true.
Proof.
  intros H b Hb. rewrite forallb_forall in H. apply H. now apply in_all_bytes.
Qed.

Lemma byte_sweep2 (P : N -> N -> bool) :
  forallb (fun x => forallb (P x) all_bytes) all_bytes = true ->
  forall x y, x < 256 -> y < 256 -> P x y = true.
Proof.
  intros H x y Hx Hy. rewrite forallb_forall in H.
  specialize (H x (in_all_bytes x Hx)). rewrite forallb_forall in H.
  apply H. now apply in_all_bytes.
Qed.

Lemma is_byte_lt b : is_byte b = true <-> b < 256.
Proof. unfold is_byte. apply N.ltb_lt. Qed.

Lemma wf_bytes_cons b l : wf_bytes (b :: l) = true <-> b < 256 /\ wf_bytes l = true.
Proof. unfold wf_bytes. cbn [forallb]. rewrite andb_true_iff, is_byte_lt. tauto. Qed.
